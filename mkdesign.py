#!/usr/bin/env python3
"""Regenerates the tables of DESIGN.md (findings from known_findings.json, seeds from seeded/RESULTS.md) between their markers."""
import json, re, subprocess
s = open('/verif/DESIGN.md').read()
k = json.load(open('/verif/known_findings.json'))
def row(f):
    return "| %s | %s/%s | %s |" % (f['id'], f['property'], f['sub'], f['what'].replace('|', '/').replace('\n', ' '))
def table(status):
    rows = [row(f) for f in k['findings'] if f['status'] == status]
    return "| id | check | %s |\n|---|---|---|\n%s\n" % ("what failed (commit in the text)" if status == 'fixed' else "what fails", "\n".join(rows))
res = open('/verif/seeded/RESULTS.md').read()
seeds = res[res.index('| seed'):].rstrip('\n') + "\n"
for marker, body in (('FIXED', table('fixed')), ('OPEN', table('open')), ('SEEDS', seeds)):
    s = re.sub(r'<!-- %s:begin -->\n.*?<!-- %s:end -->\n' % (marker, marker), lambda m: '<!-- %s:begin -->\n%s<!-- %s:end -->\n' % (marker, body, marker), s, flags=re.S)
n = subprocess.run(['git', '-C', '/repo', 'log', '--oneline'], capture_output=True, text=True).stdout.count(' fix:')
s = re.sub(r'### 4\.1 Repaired in /repo \(\d+ `fix:` commits', '### 4.1 Repaired in /repo (%d `fix:` commits' % n, s)
open('/verif/DESIGN.md', 'w').write(s)
print("fix commits:", n, "findings:", len(k['findings']))
