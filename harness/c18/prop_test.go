package c18

import (
	"bytes"
	"errors"
	"fmt"
	"math"
	"os"
	"strconv"
	"strings"
	"sync"
	"testing"

	"github.com/tdewolff/canvas"
	"github.com/tdewolff/canvas/renderers/pdf"
	canvasText "github.com/tdewolff/canvas/text"
	"github.com/tdewolff/font"
	"pgregory.net/rapid"

	"verif/harness/geo"
	"verif/harness/oracle"
	"verif/harness/pdfread"
	"verif/harness/rec"
	"verif/harness/vf"
)

func TestMain(m *testing.M) {
	// font.ParseCFF (work in progress in the font package) writes a file "out.cff" into the working directory: keep that out of the harness tree
	if dir := os.Getenv("VERIF_OUT"); dir != "" {
		os.Chdir(dir)
	}
	vf.Main(m, "C18")
}

var (
	once  sync.Once
	fonts []*canvas.FontFamily
	ferr  error
)

func setup() error {
	once.Do(func() {
		for i, f := range []string{"/repo/resources/DejaVuSerif.ttf", "/repo/resources/EBGaramond12-Regular.otf"} {
			fam := canvas.NewFontFamily([]string{"dejavu-serif", "eb-garamond"}[i])
			if err := fam.LoadFontFile(f, canvas.FontRegular); err != nil {
				ferr = err
				return
			}
			fonts = append(fonts, fam)
		}
	})
	return ferr
}

var pieces = []string{"Hello", "fi", "ffl", "AVATAR", "To Wa", "0123456789", "54321", "24680", "11111", "x", " ", "  ", "(a)", "é", "Ünï", "q̣", "x̂́", "é", "αβγ", "Жук", "—", "“q”", "%&$", "Tj", "Ty.", "office", " ", "€", "ﬁ", "W", "iiii", "MMMM", "a-b", "T​z",
	// every printable ASCII character: more than 92 distinct glyphs of one font in a document (the subsetter hands out the
	// two-byte codes in order of first appearance, so the codes reach 0x5C, the backslash, and beyond)
	" !\"#$%&'()*+,-./0123456789:;<=>?@ABCDEFGHIJKLMNOPQRSTUVWXYZ[\\]^_`abcdefghijklmnopqrstuvwxyz{|}~"}

// characters beyond the BMP that the font has glyphs for (mathematical italic in DejaVu Serif, regional indicators in EB
// Garamond): their ToUnicode entries are UTF-16 surrogate pairs (seed C18-7). Per font: a character the font lacks is laid
// out as .notdef, which is not a character of the text and is left out of the generated domain.
var astral = [2][]string{{"x\U0001D434y", "\U0001D434\U0001D435\U0001D436", "\U0001D7E1"}, {"\U0001F1E6", "a\U0001F1E7", "\U0001F1E6 x"}}

func genText(t *rapid.T, label string, max, font int) string {
	n := rapid.IntRange(1, max).Draw(t, label+"n")
	var sb strings.Builder
	for i := 0; i < n; i++ {
		k := rapid.IntRange(0, len(pieces)+len(astral[font])-1).Draw(t, label)
		if k >= len(pieces) {
			sb.WriteString(astral[font][k-len(pieces)])
			continue
		}
		sb.WriteString(pieces[k])
	}
	return sb.String()
}

// ---------------- glyph subsetter ----------------

type SCase struct {
	IDs []int `json:"ids"`
}

func checkS(c SCase, r *vf.R) error {
	s := canvas.NewFontSubsetter()
	model := map[uint16]uint16{0: 0}
	order := []uint16{0}
	repeat := false
	for i, id := range c.IDs {
		g := uint16(id)
		code := s.Get(g)
		if want, ok := model[g]; ok {
			repeat = true
			if code != want {
				return vf.Errorf("call %d: Get(%d) = %d, it was %d before", i, g, code, want)
			}
		} else {
			if int(code) != len(order) {
				return vf.Errorf("call %d: new glyph %d got code %d, the next free code is %d", i, g, code, len(order))
			}
			model[g] = code
			order = append(order, g)
		}
		if g == 0 && code != 0 {
			return vf.Errorf(".notdef has code %d", code)
		}
		l := s.List()
		if len(l) != len(order) {
			return vf.Errorf("call %d: List has %d entries, %d glyphs were registered", i, len(l), len(order))
		}
		for k := range l {
			if l[k] != order[k] {
				return vf.Errorf("call %d: List()[%d] = %d, glyph %d has that code", i, k, l[k], order[k])
			}
		}
	}
	if repeat && len(order) > 3 {
		r.NonTrivial()
	}
	return nil
}

func TestSubsetter(t *testing.T) {
	vf.Run(t, vf.Prop[SCase]{Sub: "subsetter", Gen: func(t *rapid.T) SCase {
		n := rapid.IntRange(1, 40).Draw(t, "n")
		var c SCase
		for i := 0; i < n; i++ {
			c.IDs = append(c.IDs, []int{0, 1, 2, 3, 5, 8, 70, 300, 65535, 2000}[rapid.IntRange(0, 9).Draw(t, "id")])
		}
		return c
	}, Check: checkS, Cases: vf.N(2000, 20000)})
}

// ---------------- text to path ----------------

type PCase struct {
	Font   int     `json:"font"`
	Size   float64 `json:"size"`
	Text   string  `json:"text"`
}

func genP(t *rapid.T) PCase {
	font := rapid.IntRange(0, 1).Draw(t, "font")
	return PCase{Font: font, Size: float64(rapid.IntRange(4, 40).Draw(t, "size")), Text: genText(t, "piece", 5, font)}
}

func (c PCase) face() *canvas.FontFace {
	return fonts[c.Font].Face(c.Size, canvas.Black, canvas.FontRegular, canvas.FontNormal)
}

// glyphOutlines places every glyph outline (read from the font by the external font package into the independent path model) at the sum of the preceding advances plus its offsets.
func glyphOutlines(face *canvas.FontFace, glyphs []canvasText.Glyph) ([]oracle.Seg, float64, error) {
	b := &geo.Builder{}
	f := face.MmPerEm
	x, y := int32(face.XOffset), int32(face.YOffset)
	for _, g := range glyphs {
		if err := face.Font.SFNT.GlyphPath(b, g.ID, 0, f*float64(x+g.XOffset), f*float64(y+g.YOffset), f, font.NoHinting); err != nil {
			return nil, 0, err
		}
		x += g.XAdvance
		y += g.YAdvance
	}
	return b.Segs, f * float64(x-int32(face.XOffset)), nil
}

func decode(p *canvas.Path) ([]oracle.Seg, error) {
	return oracle.Decode(p.Data())
}

// sameOutlines compares two outlines that were produced by the same sequence of drawing calls: segment by segment after dropping zero-length lines; only small paths fall back to the (quadratic) geometric comparison when the segment lists differ.
func sameOutlines(what string, got, want []oracle.Seg, tol float64) error {
	norm := func(in []oracle.Seg) []oracle.Seg {
		var out []oracle.Seg
		for _, s := range in {
			if s.Cmd == oracle.LineTo && s.End().Dist(s.P0) <= tol {
				continue
			}
			if s.Cmd == oracle.Close && len(out) > 0 && out[len(out)-1].Cmd == oracle.Close {
				continue // closing a closed subpath again draws nothing
			}
			if s.Cmd == oracle.MoveTo && len(out) > 0 && out[len(out)-1].Cmd == oracle.MoveTo {
				out = out[:len(out)-1]
			}
			out = append(out, s)
		}
		return out
	}
	// a line back to the start followed by a closing segment of zero length is the same as the closing segment alone
	merge := func(in []oracle.Seg) []oracle.Seg {
		var out []oracle.Seg
		for _, s := range in {
			if s.Cmd == oracle.Close && s.End().Dist(s.P0) <= tol && len(out) > 0 && out[len(out)-1].Cmd == oracle.LineTo {
				prev := out[len(out)-1]
				out[len(out)-1] = oracle.Seg{Cmd: oracle.Close, P0: prev.P0, Args: s.Args}
				continue
			}
			out = append(out, s)
		}
		return out
	}
	g, w := norm(merge(got)), norm(merge(want))
	if len(g) == len(w) {
		ok := true
		for i := range g {
			if g[i].Cmd != w[i].Cmd || len(g[i].Args) != len(w[i].Args) {
				ok = false
				break
			}
			for k := range g[i].Args {
				if math.Abs(g[i].Args[k]-w[i].Args[k]) > tol {
					if len(g) > 150 {
						return fmt.Errorf("%s: segment %d is %v %.6f, expected %.6f", what, i, g[i].Cmd, g[i].Args, w[i].Args)
					}
					ok = false
				}
			}
		}
		if ok {
			return nil
		}
	}
	if len(g) > 150 || len(w) > 150 {
		for i := 0; i < len(g) && i < len(w); i++ {
			if g[i].Cmd != w[i].Cmd || len(g[i].Args) != len(w[i].Args) || g[i].End().Dist(w[i].End()) > tol {
				ctx := ""
				for k := i - 3; k <= i+1; k++ {
					if k >= 0 && k < len(g) && k < len(w) {
						ctx += fmt.Sprintf(" | got %v %.4f want %v %.4f", g[k].Cmd, g[k].Args, w[k].Cmd, w[k].Args)
					}
				}
				return fmt.Errorf("%s: %d segments, expected %d; first difference at segment %d: %v %.5f from %.5f, expected %v %.5f from %.5f%s", what, len(g), len(w), i, g[i].Cmd, g[i].Args, g[i].P0, w[i].Cmd, w[i].Args, w[i].P0, ctx)
			}
		}
		return fmt.Errorf("%s: %d segments, expected %d", what, len(g), len(w))
	}
	return geo.SameGeometry(what, got, want, tol)
}

func checkP(c PCase, r *vf.R) error {
	if err := setup(); err != nil {
		return vf.Errorf("fonts: %v", err)
	}
	face := c.face()
	var glyphs []canvasText.Glyph
	var p *canvas.Path
	var adv float64
	var perr error
	if err := vf.Try("ToPath", func() {
		glyphs = face.Glyphs(c.Text)
		p, adv, perr = face.ToPath(c.Text)
	}); err != nil {
		return err
	}
	if perr != nil {
		return vf.Errorf("ToPath(%q): %v", c.Text, perr)
	}
	offsets := false
	for _, g := range glyphs {
		if g.XOffset != 0 || g.YOffset != 0 {
			offsets = true
		}
	}
	r.ClassIf(offsets, "glyph-offsets")
	if len(glyphs) >= 2 {
		r.NonTrivial()
	}
	want, wadv, err := glyphOutlines(face, glyphs)
	if err != nil {
		return vf.Errorf("glyph outlines: %v", err)
	}
	got, err := decode(p)
	if err != nil {
		return vf.Errorf("ToPath result: %v", err)
	}
	tol := 1e-6 * (1 + c.Size)
	if err := sameOutlines(fmt.Sprintf("ToPath(%q) at %g pt", c.Text, c.Size), got, want, tol); err != nil {
		return err
	}
	if math.Abs(adv-wadv) > tol {
		return vf.Errorf("ToPath(%q) returns advance %v, the glyph advances add up to %v", c.Text, adv, wadv)
	}
	if tw := face.TextWidth(c.Text); math.Abs(tw-wadv) > tol {
		return vf.Errorf("TextWidth(%q) = %v, the glyph advances add up to %v", c.Text, tw, wadv)
	}
	// a text line rendered as paths puts the same outlines at the span position
	for _, halign := range []canvas.TextAlign{canvas.Left, canvas.Right} {
		txt := canvas.NewTextLine(face, c.Text, halign)
		rr := rec.New(200, 100)
		if err := vf.Try("RenderAsPath", func() { txt.RenderAsPath(rr, canvas.Identity.Translate(50, 40), 0) }); err != nil {
			return err
		}
		var all []oracle.Seg
		for _, call := range rr.Calls {
			if call.Kind != "path" {
				continue
			}
			s, err := decode(call.Path.Copy().Transform(call.M))
			if err != nil {
				return vf.Errorf("RenderAsPath: %v", err)
			}
			all = append(all, s...)
		}
		var exp []oracle.Seg
		var werr error
		txt.WalkSpans(func(x, y float64, span canvas.TextSpan) {
			// WalkSpans includes the face offsets in x and y
			s, _, err := glyphOutlines(span.Face, span.Glyphs)
			if err != nil {
				werr = err
				return
			}
			dx := 50 + x - span.Face.MmPerEm*float64(span.Face.XOffset)
			dy := 40 + y - span.Face.MmPerEm*float64(span.Face.YOffset)
			for _, sg := range s {
				exp = append(exp, shift(sg, dx, dy))
			}
		})
		if werr != nil {
			return vf.Errorf("glyph outlines: %v", werr)
		}
		if strings.ContainsAny(c.Text, "\n") {
			continue
		}
		if err := sameOutlines(fmt.Sprintf("RenderAsPath of NewTextLine(%q, %v)", c.Text, halign), all, exp, tol*10); err != nil {
			return err
		}
	}
	// vertical writing modes: a span is placed at its position in the column and, for scripts that are not written vertically, rotated as a whole (span.Rotation); the glyph outlines in the span's own frame are as above
	for _, mode := range []canvas.WritingMode{canvas.VerticalRL, canvas.VerticalLR} {
		rt := canvas.NewRichText(face)
		rt.SetWritingMode(mode)
		rt.WriteString(strings.ReplaceAll(c.Text, "\n", " "))
		var txt *canvas.Text
		rr := rec.New(200, 200)
		if err := vf.Try("vertical RenderAsPath", func() {
			txt = rt.ToText(0, 150, canvas.Left, canvas.Top, 0, 0)
			txt.RenderAsPath(rr, canvas.Identity.Translate(50, 180), 0)
		}); err != nil {
			return err
		}
		var all, exp []oracle.Seg
		for _, call := range rr.Calls {
			if call.Kind != "path" {
				continue
			}
			sg, err := decode(call.Path.Copy().Transform(call.M))
			if err != nil {
				return vf.Errorf("vertical RenderAsPath: %v", err)
			}
			all = append(all, sg...)
		}
		var werr error
		rotated := false
		txt.WalkSpans(func(x, y float64, span canvas.TextSpan) {
			if !span.IsText() {
				return
			}
			sg, _, err := glyphOutlines(span.Face, span.Glyphs)
			if err != nil {
				werr = err
				return
			}
			bx := 50 + x - span.Face.MmPerEm*float64(span.Face.XOffset)
			by := 180 + y - span.Face.MmPerEm*float64(span.Face.YOffset)
			m := oracle.Translate(bx, by).Mul(oracle.Rotate(float64(span.Rotation)))
			if span.Rotation != 0 {
				rotated = true
			}
			for _, s0 := range sg {
				exp = append(exp, mapSeg(s0, m))
			}
		})
		if werr != nil {
			return vf.Errorf("glyph outlines: %v", werr)
		}
		r.ClassIf(rotated, "vertical-rotated-span")
		if err := sameOutlines(fmt.Sprintf("RenderAsPath of %q in writing mode %v", c.Text, mode), all, exp, tol*10); err != nil {
			return err
		}
	}
	return nil
}

func mapSeg(s oracle.Seg, m oracle.Mat) oracle.Seg {
	out := oracle.Seg{Cmd: s.Cmd, P0: m.Apply(s.P0), Args: append([]float64(nil), s.Args...)}
	for i := 0; i+1 < len(out.Args); i += 2 {
		q := m.Apply(oracle.Pt{X: s.Args[i], Y: s.Args[i+1]})
		out.Args[i], out.Args[i+1] = q.X, q.Y
	}
	return out
}

func shift(s oracle.Seg, dx, dy float64) oracle.Seg {
	out := oracle.Seg{Cmd: s.Cmd, P0: oracle.Pt{X: s.P0.X + dx, Y: s.P0.Y + dy}, Args: append([]float64(nil), s.Args...)}
	for i := 0; i+1 < len(out.Args); i += 2 {
		out.Args[i] += dx
		out.Args[i+1] += dy
	}
	return out
}

// pdfPathData decodes a canvas path through its PDF path data (no arcs in glyph outlines), read by the independent content-stream tokenizer.
func pdfPathData(p *canvas.Path) ([]oracle.Seg, error) {
	ops, err := pdfread.ParseContent([]byte(p.ToPDF()))
	if err != nil {
		return nil, err
	}
	b := &geo.Builder{}
	n := func(v any) float64 { x, _ := pdfread.Num(v); return x }
	for _, op := range ops {
		a := op.Args
		switch op.Name {
		case "m":
			b.MoveTo(n(a[0]), n(a[1]))
		case "l":
			b.ReopenIfClosed()
			b.LineTo(n(a[0]), n(a[1]))
		case "c":
			b.ReopenIfClosed()
			b.CubeTo(n(a[0]), n(a[1]), n(a[2]), n(a[3]), n(a[4]), n(a[5]))
		case "v":
			b.ReopenIfClosed()
			b.CubeTo(b.Cur.X, b.Cur.Y, n(a[0]), n(a[1]), n(a[2]), n(a[3]))
		case "y":
			b.ReopenIfClosed()
			b.CubeTo(n(a[0]), n(a[1]), n(a[2]), n(a[3]), n(a[2]), n(a[3]))
		case "h":
			b.Close()
		default:
			return nil, fmt.Errorf("operator %s in path data", op.Name)
		}
	}
	return b.Segs, nil
}

func TestToPath(t *testing.T) {
	vf.Run(t, vf.Prop[PCase]{Sub: "topath", Gen: genP, Check: checkP, Cases: vf.N(500, 8000)})
}

// ---------------- PDF text ----------------

type TRun struct {
	Font int     `json:"font"`
	Size float64 `json:"size"`
	Text string  `json:"text"`
}

type TCase struct {
	Runs    []TRun  `json:"runs"`
	Width   float64 `json:"width"` // 0: a text line; otherwise a rich text box of this width
	Justify bool    `json:"justify"`
	Subset  bool    `json:"subset"`
	Comp    bool    `json:"compress"`
	Twice   bool    `json:"twice"` // draw the text on a second page as well
}

func genT(t *rapid.T) TCase {
	var c TCase
	n := rapid.IntRange(1, 3).Draw(t, "nruns")
	for i := 0; i < n; i++ {
		font := rapid.IntRange(0, 1).Draw(t, "font")
		c.Runs = append(c.Runs, TRun{Font: font, Size: float64(rapid.IntRange(6, 24).Draw(t, "size")), Text: genText(t, "piece", 6, font)})
	}
	if rapid.Bool().Draw(t, "box") {
		c.Width = float64(rapid.IntRange(4, 16).Draw(t, "width")) * 10
		c.Justify = rapid.Bool().Draw(t, "justify")
	}
	c.Subset = rapid.Bool().Draw(t, "subset")
	c.Comp = rapid.Bool().Draw(t, "compress")
	c.Twice = rapid.IntRange(0, 3).Draw(t, "twice") == 0
	return c
}

// cmap parses the bfchar and bfrange sections of a ToUnicode CMap.
func cmap(data []byte) (map[int][]rune, error) {
	out := map[int][]rune{}
	toks := strings.Fields(string(data))
	hex := func(s string) ([]byte, bool) {
		if len(s) < 2 || s[0] != '<' || s[len(s)-1] != '>' || len(s)%2 != 0 {
			return nil, false
		}
		b := make([]byte, 0, len(s)/2)
		for i := 1; i+1 < len(s)-1; i += 2 {
			v, err := strconv.ParseUint(s[i:i+2], 16, 8)
			if err != nil {
				return nil, false
			}
			b = append(b, byte(v))
		}
		return b, true
	}
	code := func(b []byte) int {
		v := 0
		for _, x := range b {
			v = v<<8 | int(x)
		}
		return v
	}
	utf16be := func(b []byte) []rune {
		var u []uint16
		for i := 0; i+1 < len(b); i += 2 {
			u = append(u, uint16(b[i])<<8|uint16(b[i+1]))
		}
		var out []rune
		for i := 0; i < len(u); i++ {
			if 0xD800 <= u[i] && u[i] < 0xDC00 && i+1 < len(u) {
				out = append(out, rune(u[i]-0xD800)<<10+rune(u[i+1]-0xDC00)+0x10000)
				i++
			} else {
				out = append(out, rune(u[i]))
			}
		}
		return out
	}
	for i := 0; i < len(toks); i++ {
		switch toks[i] {
		case "beginbfchar":
			n, err := strconv.Atoi(toks[i-1])
			if err != nil {
				return nil, fmt.Errorf("beginbfchar without count")
			}
			for k := 0; k < n; k++ {
				a, ok1 := hex(toks[i+1+2*k])
				b, ok2 := hex(toks[i+2+2*k])
				if !ok1 || !ok2 || len(a) != 2 {
					return nil, fmt.Errorf("bfchar entry %q %q", toks[i+1+2*k], toks[i+2+2*k])
				}
				out[code(a)] = utf16be(b)
			}
			if toks[i+1+2*n] != "endbfchar" {
				return nil, fmt.Errorf("bfchar count %d does not match its entries", n)
			}
		case "beginbfrange":
			n, err := strconv.Atoi(toks[i-1])
			if err != nil {
				return nil, fmt.Errorf("beginbfrange without count")
			}
			for k := 0; k < n; k++ {
				a, ok1 := hex(toks[i+1+3*k])
				b, ok2 := hex(toks[i+2+3*k])
				d, ok3 := hex(toks[i+3+3*k])
				if !ok1 || !ok2 || !ok3 || len(a) != 2 || len(b) != 2 {
					return nil, fmt.Errorf("bfrange entry")
				}
				if a[0] != b[0] && false {
					return nil, fmt.Errorf("bfrange crosses the first byte")
				}
				base := utf16be(d)
				for cde := code(a); cde <= code(b); cde++ {
					r := append([]rune(nil), base...)
					r[len(r)-1] += rune(cde - code(a))
					out[cde] = r
				}
			}
			if toks[i+1+3*n] != "endbfrange" {
				return nil, fmt.Errorf("bfrange count %d does not match its entries", n)
			}
		}
	}
	return out, nil
}

var errCFFPrivate = fmt.Errorf("embedded CFF font program is malformed")

type pdfFont struct {
	w       map[int]float64
	dw      float64
	cid2gid func(int) (int, bool)
	uni     map[int][]rune
	prog    *font.SFNT
	base    string
	vertical bool       // Identity-V: the writing mode of the font is vertical
	dw2      [2]float64 // default vertical metrics: position vector y and vertical displacement
	// read from the tables of the embedded program directly
	numGlyphs int
	upem      float64
	advance   func(gid int) float64
}

// cffPrivateDICT validates, from the CFF specification alone (Adobe Technical Note 5176), that the Private DICT referenced by the Top DICT is a well-formed DICT of Private operators: header, Name INDEX, Top DICT INDEX, operator 18 (size, offset).
func cffPrivateDICT(b []byte) error {
	index := func(pos int) ([][]byte, int, error) {
		if pos+2 > len(b) {
			return nil, 0, fmt.Errorf("INDEX truncated")
		}
		n := int(b[pos])<<8 | int(b[pos+1])
		if n == 0 {
			return nil, pos + 2, nil
		}
		offSize := int(b[pos+2])
		if offSize < 1 || offSize > 4 || pos+3+(n+1)*offSize > len(b) {
			return nil, 0, fmt.Errorf("INDEX offsets truncated")
		}
		offs := make([]int, n+1)
		for i := range offs {
			v := 0
			for k := 0; k < offSize; k++ {
				v = v<<8 | int(b[pos+3+i*offSize+k])
			}
			offs[i] = v
		}
		base := pos + 3 + (n+1)*offSize - 1
		var out [][]byte
		for i := 0; i < n; i++ {
			if offs[i] < 1 || offs[i+1] < offs[i] || base+offs[i+1] > len(b) {
				return nil, 0, fmt.Errorf("INDEX entry %d outside the table", i)
			}
			out = append(out, b[base+offs[i]:base+offs[i+1]])
		}
		return out, base + offs[n], nil
	}
	type entry struct {
		op   int
		args []float64
	}
	dict := func(d []byte) ([]entry, error) {
		var out []entry
		var st []float64
		for i := 0; i < len(d); {
			c := d[i]
			switch {
			case c <= 21:
				op := int(c)
				i++
				if c == 12 {
					if i >= len(d) {
						return nil, fmt.Errorf("escape operator truncated")
					}
					op = 1200 + int(d[i])
					i++
				}
				out = append(out, entry{op, st})
				st = nil
			case c == 28 && i+2 < len(d):
				st = append(st, float64(int16(int(d[i+1])<<8|int(d[i+2]))))
				i += 3
			case c == 29 && i+4 < len(d):
				st = append(st, float64(int32(int(d[i+1])<<24|int(d[i+2])<<16|int(d[i+3])<<8|int(d[i+4]))))
				i += 5
			case c == 30:
				i++
				for {
					if i >= len(d) {
						return nil, fmt.Errorf("real number truncated")
					}
					x := d[i]
					i++
					if x&0xf == 0xf || x>>4 == 0xf {
						break
					}
				}
				st = append(st, math.NaN())
			case c >= 32 && c <= 246:
				st = append(st, float64(int(c)-139))
				i++
			case c >= 247 && c <= 250 && i+1 < len(d):
				st = append(st, float64((int(c)-247)*256+int(d[i+1])+108))
				i += 2
			case c >= 251 && c <= 254 && i+1 < len(d):
				st = append(st, float64(-(int(c)-251)*256-int(d[i+1])-108))
				i += 2
			default:
				return nil, fmt.Errorf("byte %d at %d is not a DICT token", c, i)
			}
		}
		if len(st) != 0 {
			return nil, fmt.Errorf("operands without operator at the end")
		}
		return out, nil
	}
	if len(b) < 4 {
		return fmt.Errorf("CFF header truncated")
	}
	_, pos, err := index(int(b[2]))
	if err != nil {
		return fmt.Errorf("Name INDEX: %v", err)
	}
	tops, _, err := index(pos)
	if err != nil || len(tops) != 1 {
		return fmt.Errorf("Top DICT INDEX: %v (%d fonts)", err, len(tops))
	}
	top, err := dict(tops[0])
	if err != nil {
		return fmt.Errorf("Top DICT: %v", err)
	}
	for _, e := range top {
		if e.op == 18 {
			if len(e.args) != 2 {
				return fmt.Errorf("Top DICT Private operator with %d operands", len(e.args))
			}
			size, off := int(e.args[0]), int(e.args[1])
			if off < 0 || size < 0 || off+size > len(b) {
				return fmt.Errorf("Private DICT (offset %d, size %d) lies outside the table", off, size)
			}
			priv, err := dict(b[off : off+size])
			if err != nil {
				return fmt.Errorf("Private DICT at offset %d: %v", off, err)
			}
			for _, pe := range priv {
				switch pe.op {
				case 6, 7, 8, 9, 10, 11, 19, 20, 21, 1209, 1210, 1211, 1212, 1213, 1214, 1217, 1218, 1219:
					if len(pe.args) == 0 {
						return fmt.Errorf("Private DICT at offset %d: operator %d without operands", off, pe.op)
					}
				default:
					return fmt.Errorf("Private DICT at offset %d: %d is not a Private DICT operator", off, pe.op)
				}
			}
			return nil
		}
	}
	return fmt.Errorf("Top DICT without a Private DICT")
}

// sfntTables reads the table directory of an sfnt (TrueType or OpenType) file.
func sfntTables(b []byte) (map[string][]byte, error) {
	if len(b) < 12 {
		return nil, fmt.Errorf("sfnt header truncated")
	}
	n := int(b[4])<<8 | int(b[5])
	if len(b) < 12+16*n {
		return nil, fmt.Errorf("sfnt table directory truncated")
	}
	out := map[string][]byte{}
	for i := 0; i < n; i++ {
		e := b[12+16*i:]
		off := int(e[8])<<24 | int(e[9])<<16 | int(e[10])<<8 | int(e[11])
		l := int(e[12])<<24 | int(e[13])<<16 | int(e[14])<<8 | int(e[15])
		if off < 0 || l < 0 || off+l > len(b) {
			return nil, fmt.Errorf("sfnt table %q lies outside the file", string(e[:4]))
		}
		out[string(e[:4])] = b[off : off+l]
	}
	return out, nil
}

func readFont(f *pdfread.File, d pdfread.Dict) (*pdfFont, error) {
	if d["Subtype"] != pdfread.Name("Type0") || (d["Encoding"] != pdfread.Name("Identity-H") && d["Encoding"] != pdfread.Name("Identity-V")) {
		return nil, fmt.Errorf("font /Subtype %v /Encoding %v", d["Subtype"], d["Encoding"])
	}
	desc, ok := f.Resolve(d["DescendantFonts"]).(pdfread.Array)
	if !ok || len(desc) != 1 {
		return nil, fmt.Errorf("/DescendantFonts %v", d["DescendantFonts"])
	}
	cf := f.Dict(desc[0])
	if cf == nil {
		return nil, fmt.Errorf("descendant font is not a dictionary")
	}
	pf := &pdfFont{w: map[int]float64{}, dw: 1000, vertical: d["Encoding"] == pdfread.Name("Identity-V"), dw2: [2]float64{880, -1000}}
	if v, ok := f.Resolve(cf["DW2"]).(pdfread.Array); ok && len(v) == 2 {
		pf.dw2[0], _ = pdfread.Num(v[0])
		pf.dw2[1], _ = pdfread.Num(v[1])
	}
	if cf["W2"] != nil {
		return nil, fmt.Errorf("/W2 arrays are not handled")
	}
	if v, ok := pdfread.Num(cf["DW"]); ok {
		pf.dw = v
	}
	if wa, ok := f.Resolve(cf["W"]).(pdfread.Array); ok {
		for i := 0; i < len(wa); {
			c0, ok := wa[i].(int64)
			if !ok || i+1 >= len(wa) {
				return nil, fmt.Errorf("/W array malformed at %d", i)
			}
			switch nx := f.Resolve(wa[i+1]).(type) {
			case pdfread.Array:
				for k, e := range nx {
					x, ok := pdfread.Num(e)
					if !ok {
						return nil, fmt.Errorf("/W width %v", e)
					}
					pf.w[int(c0)+k] = x
				}
				i += 2
			case int64:
				if i+2 >= len(wa) {
					return nil, fmt.Errorf("/W range without width")
				}
				x, ok := pdfread.Num(wa[i+2])
				if !ok {
					return nil, fmt.Errorf("/W width %v", wa[i+2])
				}
				for c := int(c0); c <= int(nx); c++ {
					pf.w[c] = x
				}
				i += 3
			default:
				return nil, fmt.Errorf("/W array malformed at %d", i)
			}
		}
	}
	switch m := f.Resolve(cf["CIDToGIDMap"]).(type) {
	case nil:
		pf.cid2gid = func(c int) (int, bool) { return c, true }
	case pdfread.Name:
		if m != "Identity" {
			return nil, fmt.Errorf("/CIDToGIDMap /%s", m)
		}
		pf.cid2gid = func(c int) (int, bool) { return c, true }
	case *pdfread.Stream:
		data, err := m.Decode()
		if err != nil {
			return nil, err
		}
		pf.cid2gid = func(c int) (int, bool) {
			if 2*c+1 >= len(data) {
				return 0, false
			}
			return int(data[2*c])<<8 | int(data[2*c+1]), true
		}
	default:
		return nil, fmt.Errorf("/CIDToGIDMap %v", m)
	}
	fd := f.Dict(cf["FontDescriptor"])
	if fd == nil {
		return nil, fmt.Errorf("no /FontDescriptor")
	}
	var prog *pdfread.Stream
	for _, k := range []pdfread.Name{"FontFile2", "FontFile3"} {
		if s, ok := f.Resolve(fd[k]).(*pdfread.Stream); ok {
			prog = s
		}
	}
	if prog == nil {
		return nil, fmt.Errorf("no embedded font program")
	}
	data, err := prog.Decode()
	if err != nil {
		return nil, err
	}
	tables, err := sfntTables(data)
	if err != nil {
		return nil, fmt.Errorf("embedded font program: %v", err)
	}
	for _, tag := range []string{"head", "hhea", "hmtx", "maxp"} {
		if tables[tag] == nil {
			return nil, fmt.Errorf("embedded font program lacks the %s table", tag)
		}
	}
	if len(tables["maxp"]) < 6 || len(tables["hhea"]) < 36 || len(tables["head"]) < 20 {
		return nil, fmt.Errorf("embedded font program: truncated maxp, hhea or head table")
	}
	pf.numGlyphs = int(tables["maxp"][4])<<8 | int(tables["maxp"][5])
	pf.upem = float64(int(tables["head"][18])<<8 | int(tables["head"][19]))
	nh := int(tables["hhea"][34])<<8 | int(tables["hhea"][35])
	hm := tables["hmtx"]
	if nh == 0 || len(hm) < 4*nh {
		return nil, fmt.Errorf("embedded font program: hmtx table too short for %d metrics", nh)
	}
	pf.advance = func(gid int) float64 {
		if gid >= nh {
			gid = nh - 1
		}
		return float64(int(hm[4*gid])<<8 | int(hm[4*gid+1]))
	}
	if cff := tables["CFF "]; cff != nil {
		if err := cffPrivateDICT(cff); err != nil {
			return nil, fmt.Errorf("%w: %v", errCFFPrivate, err)
		}
	}
	var sf *font.SFNT
	if cff := tables["CFF "]; cff != nil {
		// the font package reads a complete OpenType file, or a bare CFF table of a subset (its reader for embedded files wants maxp before cmap)
		sf, err = font.ParseSFNT(data, 0)
		if err != nil {
			sf, err = font.ParseCFF(cff)
		}
	} else {
		sf, err = font.ParseSFNT(data, 0)
		if err != nil {
			// subsetted programs lack tables a stand-alone font must have
			sf, err = font.ParseEmbeddedSFNT(data, 0)
		}
	}
	if err != nil {
		return nil, fmt.Errorf("embedded font program does not parse: %v", err)
	}
	pf.prog = sf
	tu, ok := f.Resolve(d["ToUnicode"]).(*pdfread.Stream)
	if !ok {
		return nil, fmt.Errorf("no /ToUnicode stream")
	}
	td, err := tu.Decode()
	if err != nil {
		return nil, err
	}
	if pf.uni, err = cmap(td); err != nil {
		return nil, fmt.Errorf("ToUnicode: %v", err)
	}
	if n, ok := d["BaseFont"].(pdfread.Name); ok {
		pf.base = string(n)
	}
	return pf, nil
}

func outline(sf *font.SFNT, gid uint16) ([]oracle.Seg, error) {
	b := &geo.Builder{}
	err := sf.GlyphPath(b, gid, 0, 0, 0, 1, font.NoHinting)
	return b.Segs, err
}

func checkT(c TCase, r *vf.R) error {
	if err := setup(); err != nil {
		return vf.Errorf("fonts: %v", err)
	}
	var faces []*canvas.FontFace
	for _, run := range c.Runs {
		faces = append(faces, fonts[run.Font].Face(run.Size, canvas.Black, canvas.FontRegular, canvas.FontNormal))
	}
	var txt *canvas.Text
	if err := vf.Try("text layout", func() {
		if c.Width == 0 && len(c.Runs) == 1 {
			txt = canvas.NewTextLine(faces[0], c.Runs[0].Text, canvas.Left)
			return
		}
		rt := canvas.NewRichText(faces[0])
		for i, run := range c.Runs {
			rt.WriteFace(faces[i], run.Text)
		}
		h := canvas.Left
		if c.Justify {
			h = canvas.Justify
		}
		txt = rt.ToText(c.Width, 0, h, canvas.Top, 0, 0)
	}); err != nil {
		return err
	}
	var buf bytes.Buffer
	const ox, oy = 10.0, 250.0
	if err := vf.Try("PDF rendering", func() {
		w := pdf.New(&buf, 210, 297, &pdf.Options{Compress: c.Comp, SubsetFonts: c.Subset})
		w.RenderText(txt, canvas.Identity.Translate(ox, oy))
		if c.Twice {
			w.NewPage(210, 297)
			w.RenderText(txt, canvas.Identity.Translate(ox, oy))
		}
		if err := w.Close(); err != nil {
			panic(err)
		}
	}); err != nil {
		return err
	}
	f, probs := pdfread.Parse(buf.Bytes())
	if len(probs) > 0 {
		return vf.Errorf("PDF: %v", probs[0])
	}
	pages, probs := f.Validate()
	if len(probs) > 0 {
		return vf.Errorf("PDF: %v", probs[0])
	}
	// the laid-out spans in drawing order
	type spanInfo struct {
		x, y float64
		span canvas.TextSpan
	}
	var spans []spanInfo
	txt.WalkSpans(func(x, y float64, span canvas.TextSpan) {
		if span.IsText() {
			spans = append(spans, spanInfo{x, y, span})
		}
	})
	adjusted := false
	for _, s := range spans {
		for _, g := range s.span.Glyphs {
			if g.XAdvance != int32(s.span.Face.Font.SFNT.GlyphAdvance(g.ID)) {
				adjusted = true
			}
		}
	}
	r.ClassIf(adjusted, "advance-adjustments")
	r.ClassIf(!c.Subset, "full-embedding")
	r.ClassIf(len(spans) > 1, "multiple-spans")
	if len(spans) > 0 && (adjusted || len(spans) > 1) {
		r.NonTrivial()
	}
	usesCFF := false
	for _, run := range c.Runs {
		if run.Font == 1 {
			usesCFF = true
		}
	}
	fontCache := map[int]*pdfFont{}
	for pi, pg := range pages {
		fontRes := f.Dict(pg.Resources["Font"])
		// text state
		var cur *pdfFont
		var size float64
		tm := oracle.Identity()
		tc := 0.0
		si := 0 // span index
		inText := false
		n := func(v any) float64 { x, _ := pdfread.Num(v); return x }
		for _, op := range pg.Ops {
			a := op.Args
			switch op.Name {
			case "BT":
				inText = true
				tm = oracle.Identity()
			case "ET":
				inText = false
			case "Tf":
				ref, ok := fontRes[a[0].(pdfread.Name)].(pdfread.Ref)
				if !ok {
					return vf.Errorf("page %d: font /%s is not an indirect reference", pi, a[0])
				}
				if fontCache[ref.Num] == nil {
					pf, err := readFont(f, f.Dict(ref))
					if err != nil && errors.Is(err, errCFFPrivate) && r.Excluded("F18b", usesCFF && c.Subset) {
						// known finding: the rest of this document cannot be decoded
						return nil
					}
					if err != nil {
						return vf.Errorf("page %d: font /%s (object %d): %v", pi, a[0], ref.Num, err)
					}
					fontCache[ref.Num] = pf
				}
				cur, size = fontCache[ref.Num], n(a[1])
			case "Tm":
				tm = oracle.Mat{n(a[0]), n(a[2]), n(a[4]), n(a[1]), n(a[3]), n(a[5])}
			case "Td":
				tm = tm.Mul(oracle.Translate(n(a[0]), n(a[1])))
			case "Tc":
				tc = n(a[0])
			case "TJ":
				if !inText || cur == nil {
					return vf.Errorf("page %d: TJ outside a text object or without a font", pi)
				}
				if cur.vertical {
					return vf.Errorf("page %d: horizontal text is shown with a font whose encoding is Identity-V", pi)
				}
				if si >= len(spans) {
					return vf.Errorf("page %d: more TJ operators than laid-out spans (%d)", pi, len(spans))
				}
				sp := spans[si]
				si++
				face := sp.span.Face
				if math.Abs(size-face.Size) > 1e-6*face.Size {
					return vf.Errorf("page %d span %q: font size %v, the face has %v mm", pi, sp.span.Text, size, face.Size)
				}
				// the text matrix maps text space to millimetres (the page CTM is the mm -> pt scale)
				if math.Abs(tm[0]-1) > 1e-9 || math.Abs(tm[4]-1) > 1e-9 || math.Abs(tm[1]) > 1e-9 || math.Abs(tm[3]) > 1e-9 {
					return vf.Errorf("page %d span %q: text matrix %v is not a translation", pi, sp.span.Text, tm)
				}
				// the writer prints eight significant digits: one unit of the eighth digit of the larger coordinate
				ptol := 1e-5 + 1e-7*math.Max(math.Abs(ox+sp.x), math.Abs(oy+sp.y))
				if math.Abs(tm[2]-(ox+sp.x)) > ptol || math.Abs(tm[5]-(oy+sp.y)) > ptol {
					return vf.Errorf("page %d span %q: text starts at (%v,%v), the span is laid out at (%v,%v)", pi, sp.span.Text, tm[2], tm[5], ox+sp.x, oy+sp.y)
				}
				// decode the shown glyphs and pen positions
				pen := 0.0 // in text space units (mm)
				gi := 0
				glyphs := sp.span.Glyphs
				want := 0.0
				src := face.Font.SFNT
				upem := float64(src.Head.UnitsPerEm)
				for _, e := range a[0].(pdfread.Array) {
					if x, ok := pdfread.Num(e); ok {
						pen -= x / 1000 * size
						continue
					}
					s := e.(pdfread.String)
					if len(s)%2 != 0 {
						return vf.Errorf("page %d span %q: string of %d bytes for a two-byte encoding", pi, sp.span.Text, len(s))
					}
					for k := 0; k+1 < len(s); k += 2 {
						cid := int(s[k])<<8 | int(s[k+1])
						if gi >= len(glyphs) {
							return vf.Errorf("page %d span %q: more character codes than laid-out glyphs (%d)", pi, sp.span.Text, len(glyphs))
						}
						g := glyphs[gi]
						// pen position: every glyph starts where the laid-out advances put it
						tol := float64(gi+1) * size / 1000
						if math.Abs(pen-want) > tol+1e-9 {
							return vf.Errorf("page %d span %q: glyph %d (%q) is shown at pen position %.5f mm, the laid-out advances put it at %.5f mm (font size %g)", pi, sp.span.Text, gi, string(g.Text), pen, want, size)
						}
						// width array
						wv, ok := cur.w[cid]
						if !ok {
							wv = cur.dw
						}
						if wantW := 1000 * float64(src.GlyphAdvance(g.ID)) / upem; math.Abs(wv-wantW) > 0.5+1e-9 {
							return vf.Errorf("page %d span %q: glyph %d (%q, source glyph %d, code %d) has width %v in the font dictionary, its advance is %.2f/1000 em", pi, sp.span.Text, gi, string(g.Text), g.ID, cid, wv, wantW)
						}
						// glyph selection: same outline and advance in the embedded program
						gid, ok := cur.cid2gid(cid)
						if !ok {
							return vf.Errorf("page %d span %q: code %d is outside the CIDToGIDMap", pi, sp.span.Text, cid)
						}
						if gid >= cur.numGlyphs {
							return vf.Errorf("page %d span %q: code %d selects glyph %d, the embedded font has %d glyphs", pi, sp.span.Text, cid, gid, cur.numGlyphs)
						}
						eo, err1 := outline(cur.prog, uint16(gid))
						so, err2 := outline(src, g.ID)
						if err1 != nil || err2 != nil {
							return vf.Errorf("page %d span %q: glyph outlines: %v %v", pi, sp.span.Text, err1, err2)
						}
						es := cur.upem / upem
						if es != 1 {
							for i := range so {
								so[i] = scale(so[i], es)
							}
						}
						if err := sameOutlines(fmt.Sprintf("page %d span %q glyph %d (%q): code %d selects embedded glyph %d, source glyph %d", pi, sp.span.Text, gi, string(g.Text), cid, gid, g.ID), eo, so, 1e-6*upem+0.51); err != nil {
							return err
						}
						if ea, sa := cur.advance(gid)/es, float64(src.GlyphAdvance(g.ID)); math.Abs(ea-sa) > 0.5 {
							return vf.Errorf("page %d span %q: embedded glyph %d has advance %v, source glyph %d has %v", pi, sp.span.Text, gid, ea, g.ID, sa)
						}
						// ToUnicode: the character recovered maps to the glyph that was laid out (when the font's cmap knows the glyph at all)
						if back := src.Cmap.ToUnicode(g.ID); back != 0 {
							u, ok := cur.uni[cid]
							if !ok || len(u) == 0 {
								return vf.Errorf("page %d span %q: code %d (glyph %d, %q) has no ToUnicode entry", pi, sp.span.Text, cid, g.ID, string(g.Text))
							}
							if len(u) != 1 || src.GlyphIndex(u[0]) != g.ID {
								return vf.Errorf("page %d span %q: code %d maps to %q in ToUnicode, which is glyph %d in the font, not the laid-out glyph %d (%q)", pi, sp.span.Text, cid, string(u), src.GlyphIndex(u[0]), g.ID, string(g.Text))
							}
						} else {
							r.Class("glyph-without-cmap-entry")
						}
						pen += wv/1000*size + tc
						want += face.MmPerEm * float64(g.XAdvance)
						gi++
					}
				}
				if gi != len(glyphs) {
					return vf.Errorf("page %d span %q: %d character codes shown, %d glyphs laid out", pi, sp.span.Text, gi, len(glyphs))
				}
			}
		}
		if si != len(spans) {
			return vf.Errorf("page %d: %d TJ operators for %d laid-out spans", pi, si, len(spans))
		}
	}
	return nil
}

func scale(s oracle.Seg, f float64) oracle.Seg {
	out := oracle.Seg{Cmd: s.Cmd, P0: s.P0.Mul(f), Args: append([]float64(nil), s.Args...)}
	for i := range out.Args {
		out.Args[i] *= f
	}
	return out
}

func TestPDFText(t *testing.T) {
	vf.Run(t, vf.Prop[TCase]{Sub: "pdftext", Gen: genT, Check: checkT, Cases: vf.N(150, 2500)})
}

// ---------------- PDF text in vertical writing mode ----------------

type VCase struct {
	Font   int     `json:"font"`
	Size   float64 `json:"size"`
	Text   string  `json:"text"`
	Also   bool    `json:"also_horizontal"` // the same font is used for a horizontal line in the same document
	Subset bool    `json:"subset"`
}

func genV(t *rapid.T) VCase {
	return VCase{Font: rapid.IntRange(0, 1).Draw(t, "font"), Size: float64(rapid.IntRange(6, 24).Draw(t, "size")), Text: []string{"AB", "Hello", "fi x", "12 34", "WAVE"}[rapid.IntRange(0, 4).Draw(t, "text")], Also: rapid.Bool().Draw(t, "also"), Subset: rapid.Bool().Draw(t, "subset")}
}

// checkV lays out upright vertical text (every glyph advances downwards) and reads the PDF: the font of a vertical span must have the vertical writing mode (Identity-V), the codes must select the laid-out glyphs, and the pen must move down by the laid-out vertical advances: per ISO 32000-1 9.4.4 the displacement of a glyph in vertical mode is (w1 - Tj/1000) x font size with w1 from /DW2 (default -1000/1000).
func checkV(c VCase, r *vf.R) error {
	if err := setup(); err != nil {
		return vf.Errorf("fonts: %v", err)
	}
	face := fonts[c.Font].Face(c.Size, canvas.Black, canvas.FontRegular, canvas.FontNormal)
	rt := canvas.NewRichText(face)
	rt.SetWritingMode(canvas.VerticalRL)
	rt.SetTextOrientation(canvas.Upright)
	rt.WriteString(c.Text)
	var txt *canvas.Text
	var buf bytes.Buffer
	if err := vf.Try("vertical text to PDF", func() {
		txt = rt.ToText(0, 200, canvas.Left, canvas.Top, 0, 0)
		w := pdf.New(&buf, 210, 297, &pdf.Options{Compress: false, SubsetFonts: c.Subset})
		if c.Also {
			w.RenderText(canvas.NewTextLine(face, c.Text, canvas.Left), canvas.Identity.Translate(100, 250))
		}
		w.RenderText(txt, canvas.Identity.Translate(20, 280))
		if err := w.Close(); err != nil {
			panic(err)
		}
	}); err != nil {
		return err
	}
	if c.Also {
		r.NonTrivial()
	}
	f, probs := pdfread.Parse(buf.Bytes())
	if len(probs) > 0 {
		return vf.Errorf("PDF: %v", probs[0])
	}
	pages, probs := f.Validate()
	if len(probs) > 0 || len(pages) != 1 {
		return vf.Errorf("PDF: %v", probs)
	}
	var spans []canvas.TextSpan
	txt.WalkSpans(func(x, y float64, span canvas.TextSpan) {
		if span.IsText() {
			spans = append(spans, span)
		}
	})
	skip := 0
	if c.Also {
		skip = 1 // the horizontal line comes first
	}
	fontRes := f.Dict(pages[0].Resources["Font"])
	var cur *pdfFont
	size := 0.0
	ntj := 0
	n := func(v any) float64 { x, _ := pdfread.Num(v); return x }
	for _, op := range pages[0].Ops {
		switch op.Name {
		case "Tf":
			ref, ok := fontRes[op.Args[0].(pdfread.Name)].(pdfread.Ref)
			if !ok {
				return vf.Errorf("font /%s is not an indirect reference", op.Args[0])
			}
			pf, err := readFont(f, f.Dict(ref))
			if err != nil {
				return vf.Errorf("font /%s: %v", op.Args[0], err)
			}
			cur, size = pf, n(op.Args[1])
		case "TJ":
			ntj++
			if ntj <= skip {
				if cur == nil || cur.vertical {
					return vf.Errorf("the horizontal line is shown with a vertical font")
				}
				continue
			}
			si := ntj - skip - 1
			if si >= len(spans) {
				return vf.Errorf("more TJ operators than vertical spans (%d)", len(spans))
			}
			sp := spans[si]
			allVertical := true
			for _, g := range sp.Glyphs {
				if !g.Vertical {
					allVertical = false
				}
			}
			if !allVertical {
				r.Class("span-not-upright")
				continue
			}
			if cur == nil || !cur.vertical {
				return vf.Errorf("span %q is laid out top to bottom (glyph advances %v) but its PDF font has the horizontal writing mode (Identity-H): a reader moves the pen to the right", sp.Text, advances(sp.Glyphs))
			}
			pen, want := 0.0, 0.0
			gi := 0
			for _, e := range op.Args[0].(pdfread.Array) {
				if x, ok := pdfread.Num(e); ok {
					pen -= x / 1000 * size
					continue
				}
				s := e.(pdfread.String)
				for k := 0; k+1 < len(s); k += 2 {
					cid := int(s[k])<<8 | int(s[k+1])
					if gi >= len(sp.Glyphs) {
						return vf.Errorf("span %q: more codes than glyphs", sp.Text)
					}
					g := sp.Glyphs[gi]
					gid, ok := cur.cid2gid(cid)
					if !ok {
						return vf.Errorf("span %q: code %d outside the CIDToGIDMap", sp.Text, cid)
					}
					eo, err1 := outline(cur.prog, uint16(gid))
					so, err2 := outline(sp.Face.Font.SFNT, g.ID)
					if err1 != nil || err2 != nil {
						return vf.Errorf("glyph outlines: %v %v", err1, err2)
					}
					if err := sameOutlines(fmt.Sprintf("span %q glyph %d: code %d selects embedded glyph %d, source glyph %d", sp.Text, gi, cid, gid, g.ID), eo, so, 0.51); err != nil {
						return err
					}
					if tol := float64(gi+1) * size / 1000; math.Abs(pen-want) > tol+1e-9 {
						return vf.Errorf("span %q: glyph %d is shown at vertical pen position %.5f mm, the laid-out advances put it at %.5f mm", sp.Text, gi, pen, want)
					}
					pen += cur.dw2[1] / 1000 * size
					want += sp.Face.MmPerEm * float64(g.YAdvance)
					gi++
				}
			}
			if gi != len(sp.Glyphs) {
				return vf.Errorf("span %q: %d codes for %d glyphs", sp.Text, gi, len(sp.Glyphs))
			}
		}
	}
	if ntj != skip+len(spans) {
		return vf.Errorf("%d TJ operators for %d spans", ntj, skip+len(spans))
	}
	return nil
}

func advances(gs []canvasText.Glyph) []int32 {
	var out []int32
	for _, g := range gs {
		out = append(out, g.YAdvance)
	}
	return out
}

func TestPDFVertical(t *testing.T) {
	vf.Run(t, vf.Prop[VCase]{Sub: "pdfvertical", Gen: genV, Check: checkV, Cases: vf.N(100, 1500)})
}
