package c04

import (
	"fmt"
	"math"
	"testing"
	"time"

	"github.com/tdewolff/canvas"
	"pgregory.net/rapid"

	"verif/harness/gen"
	"verif/harness/oracle"
	"verif/harness/vf"
)

func TestMain(m *testing.M) { vf.Main(m, "C04") }

type Case struct {
	Path  gen.PathSpec `json:"path"`
	W     float64      `json:"w"`
	Cap   int          `json:"cap"`   // 0 butt 1 round 2 square
	Join  int          `json:"join"`  // 0 bevel 1 round 2 miter 3 miterclip 4 arcs 5 arcsclip
	Limit float64      `json:"limit"` // miter / arcs limit
	Tol   float64      `json:"tol"`
}

var capNames = []string{"Butt", "Round", "Square"}
var joinNames = []string{"Bevel", "Round", "Miter", "MiterClip", "Arcs", "ArcsClip"}

func (c Case) capper() canvas.Capper {
	return []canvas.Capper{canvas.ButtCap, canvas.RoundCap, canvas.SquareCap}[c.Cap]
}

func (c Case) joiner() canvas.Joiner {
	switch c.Join {
	case 0:
		return canvas.BevelJoin
	case 1:
		return canvas.RoundJoin
	case 2:
		return canvas.MiterJoiner{GapJoiner: canvas.BevelJoin, Limit: c.Limit}
	case 3:
		return canvas.MiterJoiner{GapJoiner: nil, Limit: c.Limit}
	case 4:
		return canvas.ArcsJoiner{GapJoiner: canvas.BevelJoin, Limit: c.Limit}
	default:
		return canvas.ArcsJoiner{GapJoiner: nil, Limit: c.Limit}
	}
}

// starContour: simple closed contour around (5,5).
func starContour(t *rapid.T, curved bool) gen.PathSpec {
	n := rapid.IntRange(3, 7).Draw(t, "nv")
	rot := float64(gen.Uniform(t, "rot", 0, 359))
	cw := rapid.Bool().Draw(t, "cw")
	pts := make([]oracle.Pt, n)
	for i := range pts {
		rad := 2 + 2*float64(gen.Uniform(t, "r", 0, 100))/100
		a := (rot + 360*float64(i)/float64(n)) * math.Pi / 180
		if cw {
			a = -a
		}
		pts[i] = oracle.Pt{X: 5 + rad*math.Cos(a), Y: 5 + rad*math.Sin(a)}
	}
	var ps gen.PathSpec
	ps.Cmds = append(ps.Cmds, gen.Cmd{Op: "M", A: []float64{pts[0].X, pts[0].Y}})
	for k := 1; k <= n; k++ {
		a, b := pts[k-1], pts[k%n]
		if curved && n >= 5 && rapid.IntRange(0, 2).Draw(t, "ek") == 0 {
			mid := a.Add(b).Mul(0.5)
			out := mid.Sub(oracle.Pt{X: 5, Y: 5})
			cp := mid.Add(out.Mul(0.12 * a.Dist(b) / (out.Len() + 1e-12)))
			ps.Cmds = append(ps.Cmds, gen.Cmd{Op: "Q", A: []float64{cp.X, cp.Y, b.X, b.Y}})
		} else {
			ps.Cmds = append(ps.Cmds, gen.Cmd{Op: "L", A: []float64{b.X, b.Y}})
		}
	}
	ps.Cmds = append(ps.Cmds, gen.Cmd{Op: "z"})
	return ps
}

func genCase(t *rapid.T) Case {
	c := Case{}
	c.W = float64(gen.Uniform(t, "w", 1, 24)) / 8
	c.Cap = rapid.IntRange(0, 2).Draw(t, "cap")
	c.Join = rapid.IntRange(0, 5).Draw(t, "join")
	c.Limit = []float64{1, 1.5, 2, 4, 10}[rapid.IntRange(0, 4).Draw(t, "limit")]
	c.Tol = []float64{0.01, 0.1}[rapid.IntRange(0, 1).Draw(t, "tol")]
	if rapid.IntRange(0, 2).Draw(t, "closed") == 0 {
		c.Path = starContour(t, true)
		return c
	}
	o := gen.DefaultOpts()
	o.Lo, o.Hi = 0, 10
	o.MinSub, o.MaxSub = 1, 1
	o.MinSeg, o.MaxSeg = 1, 4
	o.Closed = -1
	o.Smooth = rapid.IntRange(0, 2).Draw(t, "smooth") > 0
	o.Ops = "LLQCA"
	if rapid.IntRange(0, 2).Draw(t, "flat") == 0 {
		o.Ops = "L"
	}
	c.Path = gen.Path(t, o)
	for i := range c.Path.Cmds {
		if a := c.Path.Cmds[i].A; c.Path.Cmds[i].Op == "A" {
			a[1] = a[0] * float64(gen.Uniform(t, "ry/rx", 5, 10)) / 10
		}
	}
	return c
}

type geom struct {
	segs     []oracle.Seg
	drawn    []oracle.Seg
	closed   bool
	verts    []oracle.Pt // interior vertices (joins)
	ends     []oracle.Pt // end points of open subpaths with outward directions
	endDirs  []oracle.Pt
	size     float64
	degenerate bool
	minRadius  float64 // smallest radius of curvature along curved segments
	ellipse    float64 // largest 1 - ry/rx over elliptical arcs (0 if none)
}

func analyse(segs []oracle.Seg) geom {
	g := geom{segs: segs}
	b := oracle.EmptyBox()
	for _, s := range segs {
		if s.Cmd == oracle.MoveTo {
			continue
		}
		g.drawn = append(g.drawn, s)
		if s.Cmd == oracle.Close {
			g.closed = true
		}
		sb := oracle.SegBounds(s, 16)
		b = b.Extend(oracle.Pt{X: sb.X0, Y: sb.Y0}).Extend(oracle.Pt{X: sb.X1, Y: sb.Y1})
		if s.Cmd == oracle.QuadTo || s.Cmd == oracle.CubeTo {
			// badly conditioned Béziers (see C03 F03a/b) are outside the strict domain
			mn, mx := math.Inf(1), 0.0
			prev := s.Eval(0)
			for i := 1; i <= 200; i++ {
				q := s.Eval(float64(i) / 200)
				v := q.Dist(prev)
				mn, mx = math.Min(mn, v), math.Max(mx, v)
				prev = q
			}
			if mn < 0.1*mx {
				g.degenerate = true
			}
			// control polygon conditioning as in C03 (classes F03a/F03b)
			cps := []oracle.Pt{s.P0}
			for i := 0; i+1 < len(s.Args); i += 2 {
				cps = append(cps, oracle.Pt{X: s.Args[i], Y: s.Args[i+1]})
			}
			L := 0.0
			for i := 1; i < len(cps); i++ {
				L += cps[i].Dist(cps[i-1])
			}
			for i := 1; i < len(cps); i++ {
				if cps[i].Dist(cps[i-1]) < 0.05*L {
					g.degenerate = true
				}
				if i >= 2 {
					a, b := cps[i-1].Sub(cps[i-2]), cps[i].Sub(cps[i-1])
					if math.Abs(a.Cross(b)) < 0.05*a.Len()*b.Len() {
						g.degenerate = true
					}
				}
			}
			if cps[len(cps)-1].Dist(cps[0]) < 0.05*L {
				g.degenerate = true
			}
		}
	}
	g.size = b.Size()
	g.minRadius = math.Inf(1)
	for _, s := range g.drawn {
		if !s.Curved() {
			continue
		}
		if s.Cmd == oracle.ArcTo {
			a := s.ArcOf()
			g.ellipse = math.Max(g.ellipse, 1-math.Min(a.Rx, a.Ry)/math.Max(a.Rx, a.Ry))
		}
		const n = 200
		for i := 1; i < n; i++ {
			p0, p1, p2 := s.Eval(float64(i-1)/n), s.Eval(float64(i)/n), s.Eval(float64(i+1)/n)
			a, b, c := p0.Dist(p1), p1.Dist(p2), p0.Dist(p2)
			area := math.Abs(p1.Sub(p0).Cross(p2.Sub(p0))) / 2
			if area > 1e-14 {
				g.minRadius = math.Min(g.minRadius, a*b*c/(4*area))
			}
		}
	}
	for i, s := range g.drawn {
		if i+1 < len(g.drawn) {
			g.verts = append(g.verts, s.End())
		}
	}
	if g.closed && len(g.drawn) > 0 {
		g.verts = append(g.verts, g.drawn[len(g.drawn)-1].End())
	} else if len(g.drawn) > 0 {
		f, l := g.drawn[0], g.drawn[len(g.drawn)-1]
		d0 := f.Eval(0).Sub(f.Eval(1e-4))
		d1 := l.Eval(1).Sub(l.Eval(1 - 1e-4))
		g.ends = []oracle.Pt{f.Eval(0), l.Eval(1)}
		g.endDirs = []oracle.Pt{d0.Mul(1 / (d0.Len() + 1e-300)), d1.Mul(1 / (d1.Len() + 1e-300))}
	}
	return g
}

func probes(g geom, hw float64) []oracle.Pt {
	var pts []oracle.Pt
	for _, s := range g.drawn {
		for _, t := range []float64{0.08, 0.3, 0.5, 0.7, 0.92} {
			a, b := s.Eval(t), s.Eval(t+1e-4)
			n := oracle.Pt{X: -(b.Y - a.Y), Y: b.X - a.X}
			l := n.Len()
			if l == 0 {
				continue
			}
			n = n.Mul(1 / l)
			for _, f := range []float64{0.3, 0.8, 1.25, 1.8} {
				pts = append(pts, a.Add(n.Mul(f*hw)), a.Sub(n.Mul(f*hw)))
			}
		}
	}
	var vs []oracle.Pt
	vs = append(vs, g.verts...)
	vs = append(vs, g.ends...)
	for _, v := range vs {
		for k := 0; k < 8; k++ {
			a := (float64(k)*45 + 11) * math.Pi / 180
			for _, f := range []float64{0.5, 0.9, 1.2, 1.7, 3} {
				pts = append(pts, oracle.Pt{X: v.X + f*hw*math.Cos(a), Y: v.Y + f*hw*math.Sin(a)})
			}
		}
	}
	return pts
}

// selfApproach: two parts of the path that are more than 3 w apart along the path come closer than dist to
// each other (the stroke overlaps itself and encloses pockets).
func selfApproach(g geom, dist float64) bool {
	var pts []oracle.Pt
	var cum []float64
	l := 0.0
	for _, s := range g.drawn {
		n := 8
		if s.Curved() {
			n = 48
		}
		for i := 0; i <= n; i++ {
			p := s.Eval(float64(i) / float64(n))
			if len(pts) > 0 {
				l += p.Dist(pts[len(pts)-1])
			}
			pts = append(pts, p)
			cum = append(cum, l)
		}
	}
	for i := range pts {
		for j := i + 1; j < len(pts); j++ {
			if cum[j]-cum[i] > 3*dist && pts[i].Dist(pts[j]) < dist {
				if g.closed && l-(cum[j]-cum[i]) < 3*dist {
					continue
				}
				return true
			}
		}
	}
	return false
}

func checkStroke(c Case, r *vf.R) error {
	p := c.Path.Build()
	if p.Empty() {
		return nil
	}
	data := append([]float64(nil), p.Data()...)
	segs, err := oracle.Decode(data)
	if err != nil {
		return vf.Errorf("input not decodable: %v", err)
	}
	g := analyse(segs)
	if len(g.drawn) == 0 || g.size < 0.05 {
		return nil
	}
	hw := c.W / 2
	var q *canvas.Path
	if perr := vf.Try("Stroke", func() {
		vf.Watchdog("stroke", c, 60*time.Second, func() { q = p.Stroke(c.W, c.capper(), c.joiner(), c.Tol) })
	}); perr != nil {
		return vf.Errorf("Stroke: %v", perr)
	}
	for i, v := range p.Data() {
		if v != data[i] {
			return vf.Errorf("Stroke modified its receiver at index %d", i)
		}
	}
	out, err := oracle.Decode(q.Data())
	if err != nil {
		return vf.Errorf("Stroke output not decodable: %v", err)
	}
	r.Class("cap:" + capNames[c.Cap])
	r.Class("join:" + joinNames[c.Join])
	r.ClassIf(g.closed, "closed")
	curved := false
	for _, s := range g.drawn {
		if s.Curved() {
			curved = true
		}
	}
	sharp := false
	for i := 0; i+1 < len(g.drawn); i++ {
		a := g.drawn[i].Eval(1).Sub(g.drawn[i].Eval(1 - 1e-4))
		b := g.drawn[i+1].Eval(1e-4).Sub(g.drawn[i+1].Eval(0))
		if ang := math.Abs(math.Atan2(a.Cross(b), a.Dot(b))); ang > 10*math.Pi/180 {
			sharp = true
		}
	}
	if curved || sharp {
		r.NonTrivial()
	}
	if r.Excluded("F04d", g.degenerate) {
		return nil
	}
	// F04g: curved segments whose radius of curvature is below the half width: the inner parallel curve has
	// cusps and the outline deviates by more than the tolerance
	if r.Excluded("F04g", g.minRadius < 4*hw) {
		return nil
	}
	// F04h: arcs joins on curved paths leave holes inside and add area outside the stroke region
	if r.Excluded("F04h", c.Join >= 4 && curved) {
		return nil
	}
	outp := oracle.Sample(out, 48)
	band := 3*c.Tol + 4e-3*hw + 1e-6*g.size
	for _, s := range g.drawn {
		if s.Cmd == oracle.QuadTo || s.Cmd == oracle.CubeTo {
			// offset curves of Béziers are flattened like the curves themselves: up to ~7 tol (see C03)
			band = 7*c.Tol + 4e-3*hw + 1e-6*g.size
		}
	}
	// F04f: elliptical arcs are offset by adding w/2 to both radii, which is not the parallel curve of an
	// ellipse; the deviation is bounded by a fraction of the half width that grows with the eccentricity
	if g.ellipse > 0.01 && r.Excluded("F04f", true) {
		band += 0.6 * hw * g.ellipse
	}
	roundAll := c.Cap == 1 && c.Join == 1
	for _, pt := range probes(g, hw) {
		d := oracle.PathDist(g.drawn, pt, 128)
		w, dres := oracle.Winding(outp, pt)
		filled := w != 0
		_ = dres
		// nearest vertex / end point distances
		dv, de := math.Inf(1), math.Inf(1)
		for _, v := range g.verts {
			dv = math.Min(dv, pt.Dist(v))
		}
		beyondEnd := false
		for i, e := range g.ends {
			de = math.Min(de, pt.Dist(e))
			// in the half plane beyond the end point (cut by a butt cap)?
			if pt.Sub(e).Dot(g.endDirs[i]) > -band {
				if pt.Dist(e) < 3*hw+band {
					beyondEnd = true
				}
			}
		}
		if d < hw-band {
			must := true
			if !roundAll {
				if c.Cap != 1 && beyondEnd {
					must = false // cut off by a butt cap, or only partly covered by a square cap
				}
				if c.Join != 1 && dv < hw+band {
					must = false // only the bevel triangle is guaranteed next to a vertex
				}
			}
			if must && !filled {
				return vf.Errorf("Stroke(w=%g, %s, %s limit %g, tol %g) of %v: point %v is %g from the path (< w/2 - tol) but not filled\n outline %v", c.W, capNames[c.Cap], joinNames[c.Join], c.Limit, c.Tol, p, pt, d, q)
			}
		} else if d > hw+band {
			mustNot := true
			if c.Join >= 2 && dv < (math.Max(c.Limit, 1.001)+1)*hw+band {
				mustNot = false // inside a miter / arcs join (at most limit * w/2 from the vertex)
			}
			if c.Join >= 4 && (curved || dv < 8*hw) && r.Excluded("F04h", true) {
				// arcs joins (curved miter) reach several half widths beyond limit*w/2 from the vertex and, on
				// curved paths, occasionally add area far from any vertex
				mustNot = false
			}
			if c.Cap == 2 && de < hw*math.Sqrt2+band {
				mustNot = false // inside a square cap
			}
			if mustNot && filled {
				return vf.Errorf("Stroke(w=%g, %s, %s limit %g, tol %g) of %v: point %v is %g from the path (> w/2 + tol, nearest vertex %g, nearest end %g) but filled\n outline %v", c.W, capNames[c.Cap], joinNames[c.Join], c.Limit, c.Tol, p, pt, d, dv, de, q)
			}
		}
	}
	return nil
}

func TestStroke(t *testing.T) {
	vf.Run(t, vf.Prop[Case]{Sub: "stroke", Gen: genCase, Check: checkStroke, Cases: vf.N(6000, 40000)})
}

// ---------------- Offset of simple closed contours ----------------

type OCase struct {
	Path gen.PathSpec `json:"path"`
	D    float64      `json:"d"`
	Tol  float64      `json:"tol"`
}

func genO(t *rapid.T) OCase {
	c := OCase{Path: starContour(t, rapid.Bool().Draw(t, "curvedc"))}
	c.D = float64(gen.Uniform(t, "d", 1, 10)) / 10
	if rapid.Bool().Draw(t, "neg") {
		c.D = -c.D
	}
	c.Tol = []float64{0.01, 0.05}[rapid.IntRange(0, 1).Draw(t, "tol")]
	return c
}

func checkOffset(c OCase, r *vf.R) error {
	p := c.Path.Build()
	segs, err := oracle.Decode(append([]float64(nil), p.Data()...))
	if err != nil {
		return vf.Errorf("input not decodable: %v", err)
	}
	g := analyse(segs)
	polys := oracle.Sample(segs, 64)
	if len(polys) != 1 || oracle.SelfIntersects(polys, 1e-9) {
		r.Class("not-simple(discarded)")
		return nil
	}
	var q *canvas.Path
	if perr := vf.Try("Offset", func() { q = p.Offset(c.D, c.Tol) }); perr != nil {
		return vf.Errorf("Offset(%g) of %v: %v", c.D, p, perr)
	}
	out, err := oracle.Decode(q.Data())
	if err != nil {
		return vf.Errorf("Offset output not decodable: %v", err)
	}
	ccw := oracle.PolyArea(polys[0].P) > 0
	grow := (c.D > 0) == ccw // the boundary moves to the right-hand side of the direction of travel
	r.ClassIf(grow, "grows")
	r.ClassIf(!grow, "shrinks")
	r.NonTrivial()
	outp := oracle.Sample(out, 48)
	ad := math.Abs(c.D)
	band := 3*c.Tol + 4e-3*ad + 1e-6*g.size
	if r.Excluded("F04g", g.minRadius < 1.5*ad) {
		return nil
	}
	for _, pt := range probes(g, ad) {
		d := oracle.PathDist(g.drawn, pt, 128)
		if math.Abs(d-ad) < band {
			continue
		}
		w0, _ := oracle.Winding(polys, pt)
		inside := w0 != 0
		w, _ := oracle.Winding(outp, pt)
		var want bool
		if grow {
			want = inside || d < ad
		} else {
			want = inside && d > ad
		}
		if (w != 0) != want {
			return vf.Errorf("Offset(%g, tol %g) of the %s contour %v: point %v (inside=%v, %g from the boundary) filled=%v, expected %v\n result %v", c.D, c.Tol, map[bool]string{true: "CCW", false: "CW"}[ccw], p, pt, inside, d, w != 0, want, q)
		}
	}
	return nil
}

func TestOffset(t *testing.T) {
	vf.Run(t, vf.Prop[OCase]{Sub: "offset", Gen: genO, Check: checkOffset, Cases: vf.N(3000, 25000)})
}

var _ = fmt.Sprint
