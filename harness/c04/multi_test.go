package c04

import (
	"testing"

	"github.com/tdewolff/canvas"
	"pgregory.net/rapid"
	"verif/harness/gen"
	"verif/harness/oracle"
	"verif/harness/vf"
)

// ---------------- a path of several subpaths is stroked subpath by subpath ----------------
//
// The stroke sub-check validates single subpaths against the w/2 neighbourhood. This one takes paths of two or three
// subpaths (closed contours of either orientation, nested as holes or side by side, and open polylines) and compares
// the region of Stroke(whole path) with the union of the regions of the strokes of its subpaths: a point away from all
// outlines is filled by the one exactly when it is filled by one of the others.

func place(ps gen.PathSpec, s, dx, dy float64) gen.PathSpec {
	var out gen.PathSpec
	for _, c := range ps.Cmds {
		a := append([]float64(nil), c.A...)
		for i := 0; i+1 < len(a); i += 2 {
			a[i], a[i+1] = 5+(a[i]-5)*s+dx, 5+(a[i+1]-5)*s+dy
		}
		out.Cmds = append(out.Cmds, gen.Cmd{Op: c.Op, A: a})
	}
	return out
}

func genMulti(t *rapid.T) Case {
	c := Case{}
	c.W = float64(gen.Uniform(t, "w", 1, 8)) / 8
	c.Cap = rapid.IntRange(0, 2).Draw(t, "cap")
	c.Join = rapid.IntRange(0, 3).Draw(t, "join")
	c.Limit = []float64{1.5, 2, 4, 10}[rapid.IntRange(0, 3).Draw(t, "limit")]
	c.Tol = 0.01
	n := rapid.IntRange(2, 3).Draw(t, "nsub")
	for i := 0; i < n; i++ {
		var sp gen.PathSpec
		if rapid.IntRange(0, 3).Draw(t, "open") == 0 {
			o := gen.DefaultOpts()
			o.Lo, o.Hi = 0, 10
			o.MinSub, o.MaxSub = 1, 1
			o.MinSeg, o.MaxSeg = 1, 3
			o.Closed = 0
			o.Ops = "L"
			sp = gen.Path(t, o)
		} else {
			sp = starContour(t, rapid.Bool().Draw(t, "curved"))
		}
		switch rapid.IntRange(0, 2).Draw(t, "where") {
		case 0: // as is
		case 1: // shrunk about the common centre: a hole (or an island) inside the others
			sp = place(sp, 0.3, 0, 0)
		default: // moved aside
			sp = place(sp, 1, 11, float64(rapid.IntRange(-2, 2).Draw(t, "dy")))
		}
		c.Path.Cmds = append(c.Path.Cmds, sp.Cmds...)
	}
	return c
}

func checkMulti(c Case, r *vf.R) error {
	p := c.Path.Build()
	if p.Empty() {
		return nil
	}
	segs, err := oracle.Decode(append([]float64(nil), p.Data()...))
	if err != nil {
		return vf.Errorf("input not decodable: %v", err)
	}
	var subs [][]oracle.Seg
	for _, s := range segs {
		if s.Cmd == oracle.MoveTo || len(subs) == 0 {
			subs = append(subs, nil)
		}
		subs[len(subs)-1] = append(subs[len(subs)-1], s)
	}
	if len(subs) < 2 {
		return nil
	}
	stroke := func(q *canvas.Path) ([]oracle.Poly, error) {
		var out *canvas.Path
		if perr := vf.Try("Stroke", func() { out = q.Stroke(c.W, c.capper(), c.joiner(), c.Tol) }); perr != nil {
			return nil, perr
		}
		os, err := oracle.Decode(out.Data())
		if err != nil {
			return nil, vf.Errorf("Stroke output not decodable: %v", err)
		}
		return oracle.Sample(os, 32), nil
	}
	whole, err := stroke(p)
	if err != nil {
		return err
	}
	hw := c.W / 2
	var parts [][]oracle.Poly
	var pts []oracle.Pt
	orient := map[bool]int{}
	for _, ss := range subs {
		sub := &canvas.Path{}
		for _, s := range ss {
			a := s.Args
			switch s.Cmd {
			case oracle.MoveTo:
				sub.MoveTo(a[0], a[1])
			case oracle.LineTo:
				sub.LineTo(a[0], a[1])
			case oracle.QuadTo:
				sub.QuadTo(a[0], a[1], a[2], a[3])
			case oracle.CubeTo:
				sub.CubeTo(a[0], a[1], a[2], a[3], a[4], a[5])
			case oracle.Close:
				sub.Close()
			default:
				return nil
			}
		}
		part, err := stroke(sub)
		if err != nil {
			return err
		}
		parts = append(parts, part)
		g := analyse(ss)
		pts = append(pts, probes(g, hw)...)
		if g.closed {
			if pl := oracle.Sample(ss, 16); len(pl) == 1 {
				orient[oracle.PolyArea(pl[0].P) > 0]++
			}
		}
	}
	if r.ClassIf(orient[true] > 0 && orient[false] > 0, "closed-subpaths-of-both-orientations") {
		r.NonTrivial()
	}
	band := 4*c.Tol + 1e-2*hw
	decided := 0
	for _, pt := range pts {
		w, d := oracle.Winding(whole, pt)
		if d < band {
			continue
		}
		any, near := false, false
		for _, part := range parts {
			wp, dp := oracle.Winding(part, pt)
			if dp < band {
				near = true
			}
			if wp != 0 {
				any = true
			}
		}
		if near {
			continue
		}
		decided++
		if (w != 0) != any {
			return vf.Errorf("point %v: filled by the stroke of the whole path = %v, filled by the stroke of one of its %d subpaths = %v (path %v, w=%g, %s/%s)", pt, w != 0, len(subs), any, p, c.W, capNames[c.Cap], joinNames[c.Join])
		}
	}
	if decided >= 20 {
		r.NonTrivial()
	}
	return nil
}

func TestStrokeMulti(t *testing.T) {
	vf.Run(t, vf.Prop[Case]{Sub: "strokemulti", Gen: genMulti, Check: checkMulti, Cases: vf.N(1500, 30000)})
}
