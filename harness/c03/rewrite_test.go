package c03

import (
	"fmt"
	"math"
	"testing"

	"github.com/tdewolff/canvas"
	"pgregory.net/rapid"

	"verif/harness/gen"
	"verif/harness/oracle"
	"verif/harness/vf"
)

type RCase struct {
	Path gen.PathSpec `json:"path"`
}

func genR(ops string) func(t *rapid.T) RCase {
	return func(t *rapid.T) RCase {
		o := gen.DefaultOpts()
		o.Lo, o.Hi = -20, 20
		o.MaxSub = 2
		o.MaxSeg = 3
		o.Ops = ops
		return RCase{Path: gen.Path(t, o)}
	}
}

// groupPieces maps every input segment to the run of output segments that replaces it: output
// segments are consumed until the input segment's end point is reached.
func groupPieces(in, out []oracle.Seg, size float64) ([][]oracle.Seg, error) {
	groups := make([][]oracle.Seg, len(in))
	j := 0
	for i, s := range in {
		if s.Cmd == oracle.MoveTo || s.Cmd == oracle.Close || s.Cmd == oracle.LineTo {
			if j >= len(out) {
				return nil, vf.Errorf("output ends early at input segment %d", i)
			}
			if out[j].Cmd != s.Cmd || out[j].End().Dist(s.End()) > 1e-9*size {
				return nil, vf.Errorf("input segment %d (cmd %v to %v) became cmd %v to %v", i, s.Cmd, s.End(), out[j].Cmd, out[j].End())
			}
			groups[i] = out[j : j+1]
			j++
			continue
		}
		start := j
		for {
			if j >= len(out) {
				return nil, vf.Errorf("pieces of input segment %d never reach its end point %v", i, s.End())
			}
			if out[j].Cmd == oracle.MoveTo || out[j].Cmd == oracle.Close {
				return nil, vf.Errorf("pieces of input segment %d are interrupted by cmd %v", i, out[j].Cmd)
			}
			j++
			if out[j-1].End().Dist(s.End()) <= 1e-9*size && j-start >= 1 {
				// the end point may be visited before the last piece only for closed loops; take the longest
				// run that stays on this segment: look ahead while the next piece still starts at the end
				// point and is not the next input segment
				break
			}
			if j-start > 64 {
				return nil, vf.Errorf("input segment %d replaced by more than 64 pieces", i)
			}
		}
		groups[i] = out[start:j]
	}
	if j != len(out) {
		return nil, vf.Errorf("output has %d extra segments", len(out)-j)
	}
	return groups, nil
}

func pathSize(segs []oracle.Seg) float64 {
	b := oracle.EmptyBox()
	for _, s := range segs {
		sb := oracle.SegBounds(s, 32)
		b = b.Extend(oracle.Pt{X: sb.X0, Y: sb.Y0}).Extend(oracle.Pt{X: sb.X1, Y: sb.Y1})
	}
	return b.Size()
}

func prep(c RCase) (*canvas.Path, []oracle.Seg, []float64, error) {
	p := c.Path.Build()
	data := append([]float64(nil), p.Data()...)
	in, err := oracle.Decode(data)
	if err != nil {
		return nil, nil, nil, vf.Errorf("input not decodable: %v", err)
	}
	return p, in, data, nil
}

// hausdorff between one segment and a run of pieces, both directions, by refined nearest-point search
func hausdorff(s oracle.Seg, pieces []oracle.Seg) (float64, float64) {
	const M = 48
	ab, ba := 0.0, 0.0
	for i := 0; i <= M; i++ {
		q := s.Eval(float64(i) / M)
		ab = math.Max(ab, oracle.PathDist(pieces, q, 128))
	}
	for _, pc := range pieces {
		for i := 0; i <= M/4; i++ {
			d, _ := oracle.SegDist(s, pc.Eval(float64(i)/(M/4)), 256)
			ba = math.Max(ba, d)
		}
	}
	return ab, ba
}

func checkReplaceArcs(c RCase, r *vf.R) error {
	p, in, data, err := prep(c)
	if err != nil || p.Empty() {
		return err
	}
	var q *canvas.Path
	if err := vf.Try("ReplaceArcs", func() { q = p.ReplaceArcs() }); err != nil {
		return err
	}
	for i, v := range p.Data() {
		if v != data[i] {
			return vf.Errorf("ReplaceArcs modified its receiver at index %d", i)
		}
	}
	out, err := oracle.Decode(q.Data())
	if err != nil {
		return vf.Errorf("output not decodable: %v", err)
	}
	for _, s := range out {
		if s.Cmd == oracle.ArcTo {
			return vf.Errorf("ReplaceArcs output still contains an arc")
		}
	}
	if err := structural("ReplaceArcs", split(in), split(out), false); err != nil {
		return err
	}
	size := pathSize(in)
	// non-arc segments are kept; arcs become runs of cubics
	j := 0
	for i, s := range in {
		if s.Cmd != oracle.ArcTo {
			if j >= len(out) || out[j].Cmd != s.Cmd || out[j].End().Dist(s.End()) > 1e-9*size {
				return vf.Errorf("segment %d (cmd %v) not preserved", i, s.Cmd)
			}
			for k := range s.Args {
				if math.Abs(out[j].Args[k]-s.Args[k]) > 1e-9*size {
					return vf.Errorf("segment %d (cmd %v) changed", i, s.Cmd)
				}
			}
			j++
			continue
		}
		start := j
		for j < len(out) && out[j].Cmd == oracle.CubeTo {
			j++
			if out[j-1].End().Dist(s.End()) <= 1e-7*math.Max(s.Args[0], s.Args[1])+1e-10 {
				// stop at the arc end unless it is a closed-loop arc whose pieces continue
				arc := s.ArcOf()
				consumed := float64(j-start) * math.Pi / 2
				if consumed+1e-6 >= math.Abs(arc.Dth) {
					break
				}
			}
		}
		pieces := out[start:j]
		if len(pieces) == 0 {
			return vf.Errorf("arc segment %d replaced by nothing", i)
		}
		rmax := math.Max(s.Args[0], s.Args[1])
		if pieces[len(pieces)-1].End().Dist(s.End()) > 1e-7*rmax+1e-10 {
			return vf.Errorf("cubics replacing arc %d end at %v, arc ends at %v", i, pieces[len(pieces)-1].End(), s.End())
		}
		// a closing line shorter than that tolerance may follow to reach the exact end point
		if j < len(out) && out[j].Cmd == oracle.LineTo && out[j].End().Dist(s.End()) <= 1e-12 && out[j].P0.Dist(s.End()) <= 1e-7*rmax+1e-10 && (i+1 >= len(in) || in[i+1].Cmd != oracle.LineTo || out[j].End().Dist(in[i+1].End()) > 1e-12) {
			j++
		}
		ab, ba := hausdorff(s, pieces)
		desc := fmt.Sprintf("%s seg=%d", c.Path, i)
		vf.Max("replacearcs hausdorff/rmax", math.Max(ab, ba)/rmax, desc)
		r.NonTrivial()
		r.ClassIf(math.Abs(s.Args[0]-s.Args[1]) > 1e-10, "ellipse")
		r.ClassIf(len(pieces) >= 3, ">=3 cubics")
		if math.Max(ab, ba) > 3e-3*rmax+1e-9*size {
			return vf.Errorf("ReplaceArcs: arc segment %d (rx=%g ry=%g) and its %d cubics differ by %g = %.4f rmax (allowed 0.003 rmax)", i, s.Args[0], s.Args[1], len(pieces), math.Max(ab, ba), math.Max(ab, ba)/rmax)
		}
	}
	if j != len(out) {
		return vf.Errorf("ReplaceArcs output has %d extra segments", len(out)-j)
	}
	return nil
}

func TestReplaceArcs(t *testing.T) {
	vf.Run(t, vf.Prop[RCase]{Sub: "replacearcs", Gen: genR("AAAL"), Check: checkReplaceArcs, Cases: vf.N(1500, 20000)})
}

func checkXMonotone(c RCase, r *vf.R) error {
	p, in, data, err := prep(c)
	if err != nil || p.Empty() {
		return err
	}
	var q *canvas.Path
	if err := vf.Try("XMonotone", func() { q = p.XMonotone() }); err != nil {
		return err
	}
	for i, v := range p.Data() {
		if v != data[i] {
			return vf.Errorf("XMonotone modified its receiver at index %d", i)
		}
	}
	out, err := oracle.Decode(q.Data())
	if err != nil {
		return vf.Errorf("output not decodable: %v", err)
	}
	if err := structural("XMonotone", split(in), split(out), false); err != nil {
		return err
	}
	size := pathSize(in)
	tol := 1e-8 * size
	// number of interior x-turns of the input (dense scan) for the non-triviality rule
	for _, s := range in {
		if !s.Curved() {
			continue
		}
		const N = 2000
		turns := 0
		prevSign := 0.0
		px := s.Eval(0).X
		for k := 1; k <= N; k++ {
			x := s.Eval(float64(k) / N).X
			if d := x - px; math.Abs(d) > 1e-9*size {
				sg := math.Copysign(1, d)
				if prevSign != 0 && sg != prevSign {
					turns++
				}
				prevSign = sg
				px = x
			}
		}
		if turns > 0 {
			r.NonTrivial()
			r.Class(fmt.Sprintf("x-turns=%d", turns))
		}
	}
	// every output segment is x-monotone
	for k, pc := range out {
		if !pc.Curved() {
			continue
		}
		if oracle.SegBounds(pc, 16).Size() < 1e-4 {
			// below the library's resolution: its root solvers use the absolute Epsilon 1e-10 on
			// coefficients of the order size^2 (domain restriction, see DESIGN)
			r.Class("sub-resolution-segment(skipped)")
			continue
		}
		sign := 0.0
		px := pc.Eval(0).X
		for m := 1; m <= 400; m++ {
			x := pc.Eval(float64(m) / 400).X
			if d := x - px; math.Abs(d) > tol {
				sg := math.Copysign(1, d)
				if sign != 0 && sg != sign {
					return vf.Errorf("XMonotone: output segment %d (cmd %v) is not x-monotone near t=%.3f", k, pc.Cmd, float64(m)/400)
				}
				sign = sg
				px = x
			}
		}
	}
	// same geometry, subpath by subpath, both directions, in order
	ins, outs := split(in), split(out)
	for k := range ins {
		const M = 40
		lastT := -1.0
		_ = lastT
		for si, s := range ins[k].segs {
			if s.Cmd == oracle.MoveTo {
				continue
			}
			for m := 0; m <= M; m++ {
				if d := oracle.PathDist(outs[k].segs, s.Eval(float64(m)/M), 128); d > 1e-6*size {
					return vf.Errorf("XMonotone: point t=%.3f of input segment %d of subpath %d is %g away from the output (size %g)", float64(m)/M, si, k, d, size)
				}
			}
		}
		for si, s := range outs[k].segs {
			if s.Cmd == oracle.MoveTo {
				continue
			}
			for m := 0; m <= M/4; m++ {
				if d := oracle.PathDist(ins[k].segs, s.Eval(float64(m)/(M/4)), 256); d > 1e-6*size {
					return vf.Errorf("XMonotone: point t=%.3f of output segment %d of subpath %d is %g away from the input (size %g)", float64(m)/(M/4), si, k, d, size)
				}
			}
		}
		// pieces keep the direction: the arc length position of successive output end points increases
		var dense []oracle.Pt
		for _, s := range ins[k].segs {
			n := 1
			if s.Curved() {
				n = 600
			}
			if s.Cmd == oracle.MoveTo {
				dense = append(dense, s.End())
				continue
			}
			for m := 1; m <= n; m++ {
				dense = append(dense, s.Eval(float64(m)/float64(n)))
			}
		}
		pos := 0
		for si, s := range outs[k].segs {
			found := -1
			for j := pos; j < len(dense); j++ {
				if s.End().Dist(dense[j]) <= 1e-6*size+2*stepAt(dense, j) {
					found = j
					break
				}
			}
			if found < 0 && !(ins[k].closed && si == len(outs[k].segs)-1) {
				return vf.Errorf("XMonotone: end point %v of output segment %d of subpath %d is out of order along the input", s.End(), si, k)
			}
			if found > pos {
				pos = found
			}
		}
	}
	return nil
}

func stepAt(dense []oracle.Pt, j int) float64 {
	d := 0.0
	if j > 0 {
		d = dense[j].Dist(dense[j-1])
	}
	if j+1 < len(dense) {
		d = math.Max(d, dense[j].Dist(dense[j+1]))
	}
	return d
}

func TestXMonotone(t *testing.T) {
	vf.Run(t, vf.Prop[RCase]{Sub: "xmonotone", Gen: genR("QCAL"), Check: checkXMonotone, Cases: vf.N(800, 12000)})
}
