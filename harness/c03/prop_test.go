package c03

import (
	"fmt"
	"math"
	"testing"

	"github.com/tdewolff/canvas"
	"pgregory.net/rapid"

	"verif/harness/gen"
	"verif/harness/oracle"
	"verif/harness/vf"
)

func TestMain(m *testing.M) { vf.Main(m, "C03") }

type Case struct {
	Path gen.PathSpec `json:"path"`
	Tol  float64      `json:"tol"`
}

// one curved segment, optionally preceded/followed by a line, open or closed, plus optionally a second subpath
func genCase(t *rapid.T) Case {
	o := gen.DefaultOpts()
	o.Lo, o.Hi = -50, 50
	var ps gen.PathSpec
	nsub := rapid.IntRange(1, 2).Draw(t, "nsub")
	for s := 0; s < nsub; s++ {
		ps.Cmds = append(ps.Cmds, gen.Cmd{Op: "M", A: []float64{gen.Coord(t, "x", -50, 50), gen.Coord(t, "y", -50, 50)}})
		if rapid.IntRange(0, 3).Draw(t, "pre") == 0 {
			o.Ops = "L"
			ps.Cmds = append(ps.Cmds, gen.Segment(t, o))
		}
		o.Ops = "QCCA"
		n := 1
		if rapid.IntRange(0, 4).Draw(t, "two") == 0 {
			n = 2
		}
		for i := 0; i < n; i++ {
			ps.Cmds = append(ps.Cmds, gen.Segment(t, o))
		}
		if rapid.IntRange(0, 3).Draw(t, "post") == 0 {
			o.Ops = "L"
			ps.Cmds = append(ps.Cmds, gen.Segment(t, o))
		}
		if rapid.IntRange(0, 2).Draw(t, "close") == 0 {
			ps.Cmds = append(ps.Cmds, gen.Cmd{Op: "z"})
		}
	}
	tol := math.Pow(10, -float64(rapid.IntRange(0, 30).Draw(t, "tolexp"))/10)
	return Case{Path: ps, Tol: tol}
}

type subpath struct {
	segs   []oracle.Seg
	closed bool
}

func split(segs []oracle.Seg) []subpath {
	var out []subpath
	for _, s := range segs {
		if s.Cmd == oracle.MoveTo {
			out = append(out, subpath{})
		}
		if len(out) == 0 {
			out = append(out, subpath{})
		}
		sp := &out[len(out)-1]
		sp.segs = append(sp.segs, s)
		if s.Cmd == oracle.Close {
			sp.closed = true
		}
	}
	return out
}

func (sp subpath) start() oracle.Pt { return sp.segs[0].End() }
func (sp subpath) end() oracle.Pt   { return sp.segs[len(sp.segs)-1].End() }

// conditioning of a Bézier segment
type cond struct {
	sr, minLeg, minSin float64
}

func conditioning(s oracle.Seg) cond {
	var cps []oracle.Pt
	cps = append(cps, s.P0)
	for i := 0; i+1 < len(s.Args); i += 2 {
		cps = append(cps, oracle.Pt{X: s.Args[i], Y: s.Args[i+1]})
	}
	L := 0.0
	var legs []oracle.Pt
	for i := 1; i < len(cps); i++ {
		d := cps[i].Sub(cps[i-1])
		legs = append(legs, d)
		L += d.Len()
	}
	c := cond{minLeg: math.Inf(1), minSin: math.Inf(1)}
	for _, d := range legs {
		c.minLeg = math.Min(c.minLeg, d.Len()/L)
	}
	for i := 1; i < len(legs); i++ {
		a, b := legs[i-1], legs[i]
		c.minSin = math.Min(c.minSin, math.Abs(a.Cross(b))/(a.Len()*b.Len()+1e-300))
	}
	c.minLeg = math.Min(c.minLeg, cps[len(cps)-1].Dist(cps[0])/L)
	mn, mx := math.Inf(1), 0.0
	const N = 1000
	prev := s.Eval(0)
	for i := 1; i <= N; i++ {
		q := s.Eval(float64(i) / N)
		v := q.Dist(prev)
		mn, mx = math.Min(mn, v), math.Max(mx, v)
		prev = q
	}
	c.sr = mn / mx
	return c
}

// inflections counts the inflection points of a cubic in (0,1): roots of the cross product B' x B''.
func inflections(s oracle.Seg) int {
	p0 := s.P0
	p1 := oracle.Pt{X: s.Args[0], Y: s.Args[1]}
	p2 := oracle.Pt{X: s.Args[2], Y: s.Args[3]}
	p3 := oracle.Pt{X: s.Args[4], Y: s.Args[5]}
	a := p1.Sub(p0)
	b := p2.Sub(p1).Sub(a)
	c := p3.Sub(p2).Sub(p2.Sub(p1)).Sub(b)
	// cross(B', B'') ~ (a + 2bt + ct^2) x (b + ct) = a x b + t (a x c) + t^2 (b x c)
	A, B, C := b.Cross(c), a.Cross(c), a.Cross(b)
	n := 0
	count := func(t float64) {
		if t > 1e-9 && t < 1-1e-9 {
			n++
		}
	}
	if math.Abs(A) < 1e-12*(math.Abs(B)+math.Abs(C)+1e-300) {
		if B != 0 {
			count(-C / B)
		}
		return n
	}
	disc := B*B - 4*A*C
	if disc < 0 {
		return 0
	}
	sq := math.Sqrt(disc)
	count((-B - sq) / (2 * A))
	count((-B + sq) / (2 * A))
	return n
}

func structural(name string, in, out []subpath, flatOnly bool) error {
	if len(in) != len(out) {
		return vf.Errorf("%s: %d subpaths became %d", name, len(in), len(out))
	}
	for k := range in {
		a, b := in[k], out[k]
		if a.closed != b.closed {
			return vf.Errorf("%s: subpath %d closed=%v became closed=%v", name, k, a.closed, b.closed)
		}
		if a.start().Dist(b.start()) > 1e-9 {
			return vf.Errorf("%s: subpath %d start %v became %v", name, k, a.start(), b.start())
		}
		if a.end().Dist(b.end()) > 1e-9 { // the library treats points within Epsilon=1e-10 as equal
			return vf.Errorf("%s: subpath %d end %v became %v", name, k, a.end(), b.end())
		}
		if flatOnly {
			for _, s := range b.segs {
				if s.Curved() {
					return vf.Errorf("%s: output contains a curved segment (cmd %v)", name, s.Cmd)
				}
			}
		}
	}
	return nil
}

func checkFlatten(c Case, r *vf.R) error {
	p := c.Path.Build()
	if p.Empty() {
		return nil
	}
	data := append([]float64(nil), p.Data()...)
	in, err := oracle.Decode(data)
	if err != nil {
		return vf.Errorf("input not decodable: %v", err)
	}
	var f *canvas.Path
	if err := vf.Try("Flatten", func() { f = p.Flatten(c.Tol) }); err != nil {
		return err
	}
	for i, v := range p.Data() {
		if v != data[i] {
			return vf.Errorf("Flatten modified its receiver at index %d", i)
		}
	}
	out, err := oracle.Decode(f.Data())
	if err != nil {
		return vf.Errorf("output not decodable: %v", err)
	}
	ins, outs := split(in), split(out)
	if len(ins) != len(outs) {
		// known finding F03a: Béziers with a collinear control polygon (hairpins) are flattened to their
		// bare chord; when start == end the whole subpath vanishes
		hairpin := false
		for _, s := range in {
			if (s.Cmd == oracle.QuadTo || s.Cmd == oracle.CubeTo) && conditioning(s).minSin < 1e-9 {
				hairpin = true
			}
		}
		if r.Excluded("F03a", hairpin) {
			return nil
		}
	}
	if err := structural("Flatten", ins, outs, true); err != nil {
		return err
	}
	t := c.Tol
	for k := range ins {
		isub, osub := ins[k], outs[k]
		// --- vertex side: every vertex on the curve within t, in curve order
		// dense samples of the input subpath in order
		const N = 1500
		var dense []oracle.Pt
		for _, s := range isub.segs {
			if s.Cmd == oracle.MoveTo {
				dense = append(dense, s.End())
				continue
			}
			n := 1
			if s.Curved() {
				n = N
			}
			for i := 1; i <= n; i++ {
				dense = append(dense, s.Eval(float64(i)/float64(n)))
			}
		}
		size := oracle.Bounds([]oracle.Poly{{P: dense}}).Size()
		vtol := 1.01*t + 1e-9*size
		for _, s := range isub.segs {
			if s.Cmd == oracle.ArcTo && math.Abs(s.Args[0]-s.Args[1]) > 1e-10 {
				// elliptical arcs are flattened through cubic Béziers: vertices lie on the cubic, which is
				// within the fixed relative error of the arc->cubic conversion (same bound as ReplaceArcs)
				vtol = math.Max(vtol, 1.01*t+3e-3*math.Max(s.Args[0], s.Args[1]))
			}
		}
		// spacing of the dense sampling adds to the vertex tolerance when the match is made on samples
		step := 0.0
		for i := 1; i < len(dense); i++ {
			step = math.Max(step, dense[i].Dist(dense[i-1]))
		}
		// the dense sampling itself deviates from the curve by its sag: measure it
		sag := 0.0
		for _, s := range isub.segs {
			if s.Curved() {
				for i := 0; i < N; i += 7 {
					a, b := s.Eval(float64(i)/N), s.Eval(float64(i+1)/N)
					sag = math.Max(sag, oracle.DistSeg(s.Eval((float64(i)+0.5)/N), a, b))
				}
			}
		}
		otol := vtol + 2*sag
		vtolV := vtol

		hasCurve := false
		for _, s := range isub.segs {
			if s.Curved() {
				hasCurve = true
			}
		}
		// known finding F03e: for cubics with two inflection points whose flat ranges overlap (coarse
		// tolerances) vertices can be emitted out of curve order; the distance bound still applies
		twoInfl := false
		for _, s := range isub.segs {
			if s.Cmd == oracle.CubeTo && inflections(s) >= 2 {
				twoInfl = true
			}
		}
		checkOrder := hasCurve && !r.Excluded("F03e", twoInfl && t > size/200)
		// arc length along the dense sampling; the order may step back by features smaller than 4 t
		// (tiny loops / overlapping flat ranges around inflection points are legitimately skipped)
		cum := make([]float64, len(dense))
		for i := 1; i < len(dense); i++ {
			cum[i] = cum[i-1] + dense[i].Dist(dense[i-1])
		}
		pos := 0
		for vi, s := range osub.segs {
			v := s.End()
			d := oracle.PathDist(isub.segs, v, 1500)
			if len(isub.segs) == 1 {
				d = v.Dist(isub.start())
			}
			if d > vtolV {
				// the closing segment may also be matched
				return vf.Errorf("Flatten(%g): vertex %d %v of subpath %d lies %g from the input path (allowed %g)", t, vi, v, k, d, vtolV)
			}
			if !checkOrder {
				continue
			}
			// curve order: greedy earliest non-decreasing assignment on the dense sampling
			found := -1
			from := pos
			for from > 0 && cum[pos]-cum[from-1] <= 4*t {
				from--
			}
			for j := from; j < len(dense); j++ {
				var d float64
				if j+1 < len(dense) {
					d = oracle.DistSeg(v, dense[j], dense[j+1])
				} else {
					d = v.Dist(dense[j])
				}
				if d <= otol {
					found = j
					break
				}
			}
			if found < 0 && !(isub.closed && vi == len(osub.segs)-1) {
				return vf.Errorf("Flatten(%g): vertex %d %v of subpath %d is not in curve order (no position at or after sample %d of %d within %g)", t, vi, v, k, pos, len(dense), otol)
			}
			if found > pos {
				pos = found
			}
		}
		// --- coverage side per curved input segment
		opoly := oracle.Sample(osub.segs, 1)
		for si, s := range isub.segs {
			if !s.Curved() {
				continue
			}
			chordDev := 0.0
			worst, wt := 0.0, 0.0
			const M = 800
			for i := 0; i <= M; i++ {
				q := s.Eval(float64(i) / M)
				chordDev = math.Max(chordDev, oracle.DistSeg(q, s.P0, s.End()))
				if d := oracle.Dist(opoly, q); d > worst {
					worst, wt = d, float64(i)/M
				}
			}
			nontrivial := chordDev > 4*t
			sb := oracle.SegBounds(s, 64)
			ssize := sb.Size()
			rel := t / ssize
			desc := fmt.Sprintf("%s tol=%g seg=%d", c.Path, t, si)
			ratio := worst / t
			switch s.Cmd {
			case oracle.ArcTo:
				rx, ry := s.Args[0], s.Args[1]
				if math.Abs(rx-ry) <= 1e-10 {
					r.Class("circle-arc")
					vf.Max("flatten circle err/t", ratio, desc)
					if worst > 1.5*t+1e-9*ssize {
						return vf.Errorf("Flatten(%g): circular arc (segment %d) deviates %g = %.2f t from the polyline at t=%.3f (allowed 1.5 t)", t, si, worst, ratio, wt)
					}
				} else {
					r.Class("ellipse-arc")
					// always-on bound: arc->cubic error floor (Maisonobe) on top of the cubic flattening bound
					floor := 3e-3 * math.Max(rx, ry)
					ecc := math.Min(rx, ry) / math.Max(rx, ry) // = speed ratio of the arc's parametrisation
					cst := 6.0
					switch {
					case ecc >= 0.25 && rel <= 0.01:
						r.Class("ellipse:well-conditioned")
					case ecc >= 0.05:
						r.Class("ellipse:generic")
						cst = 20
					default:
						if r.Excluded("F03b", true) {
							continue
						}
					}
					vf.Max(fmt.Sprintf("flatten ellipse c=%g (err-floor)/t", cst), (worst-floor)/t, desc)
					if worst > cst*t+floor {
						return vf.Errorf("Flatten(%g): elliptical arc (segment %d, rx=%g ry=%g) deviates %g from the polyline at t=%.3f (allowed %g t + 3e-3 rx = %g)", t, si, rx, ry, worst, wt, cst, cst*t+floor)
					}
					// known finding F03c: the arc->cubic error floor does not vanish with t
					if worst > cst*t && !r.Excluded("F03c", true) {
						return vf.Errorf("Flatten(%g): elliptical arc (segment %d, rx=%g ry=%g) deviates %g = %.1f t from the polyline (allowed %g t): the error does not vanish with t", t, si, rx, ry, worst, worst/t, cst)
					}
				}
				if nontrivial {
					r.NonTrivial()
				}
			default:
				cd := conditioning(s)
				well := cd.sr >= 0.25 && cd.minLeg >= 0.05 && cd.minSin >= 0.1 && rel <= 0.01
				generic := cd.sr >= 0.08 && cd.minLeg >= 0.03 && cd.minSin >= 0.03
				var cst float64
				kind := "quad"
				if s.Cmd == oracle.CubeTo {
					kind = "cubic"
				}
				switch {
				case well:
					r.Class(kind + ":well-conditioned")
					cst = 2.2
					if kind == "cubic" {
						cst = 7
					}
					vf.Max(fmt.Sprintf("flatten %s well c=%g err/t", kind, cst), ratio, desc)
				case generic:
					r.Class(kind + ":generic")
					cst = 40
					vf.Max(fmt.Sprintf("flatten %s generic c=%g err/t", kind, cst), ratio, desc)
				default:
					// collinear control polygon (F03a) or near-cusp / badly conditioned (F03b): known finding classes
					if cd.minSin < 1e-6 {
						if r.Excluded("F03a", true) {
							continue
						}
					} else if r.Excluded("F03b", true) {
						continue
					}
					cst = 40
				}
				if nontrivial {
					r.NonTrivial()
				}
				if worst > cst*t+1e-9*ssize {
					return vf.Errorf("Flatten(%g): %s segment %d deviates %g = %.2f t from the polyline at t=%.3f (allowed %g t; speed ratio %.3g, min leg %.3g, min sin %.3g, t/size %.3g)", t, kind, si, worst, ratio, wt, cst, cd.sr, cd.minLeg, cd.minSin, rel)
				}
				// convergence: refining the tolerance reduces the error
				if well && nontrivial {
					t4 := t / 4
					var f4 *canvas.Path
					if err := vf.Try("Flatten", func() { f4 = p.Flatten(t4) }); err != nil {
						return err
					}
					o4, err := oracle.SampleData(f4.Data(), 1)
					if err != nil {
						return vf.Errorf("output not decodable: %v", err)
					}
					w4 := 0.0
					for i := 0; i <= M; i++ {
						w4 = math.Max(w4, oracle.Dist(o4, s.Eval(float64(i)/M)))
					}
					if w4 > math.Max(worst/2, cst*t4)+1e-9*ssize {
						return vf.Errorf("Flatten: error does not shrink with the tolerance on %s segment %d: err(%g)=%g, err(%g)=%g", kind, si, t, worst, t4, w4)
					}
				}
			}
		}
	}
	return nil
}

func TestFlatten(t *testing.T) {
	vf.Run(t, vf.Prop[Case]{Sub: "flatten", Gen: genCase, Check: checkFlatten, Cases: vf.N(1500, 40000)})
}
