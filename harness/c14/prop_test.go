package c14

import (
	"bytes"
	"fmt"
	"sort"
	"image"
	"image/color"
	"math"
	"testing"

	"github.com/tdewolff/canvas"
	"github.com/tdewolff/canvas/renderers/rasterizer"
	"pgregory.net/rapid"

	"verif/harness/bgen"
	"verif/harness/gen"
	"verif/harness/oracle"
	"verif/harness/rec"
	"verif/harness/vf"
)

func TestMain(m *testing.M) { vf.Main(m, "C14") }

type Draw struct {
	Path   gen.PathSpec `json:"path"`
	Rule   int          `json:"rule"`
	Color  int          `json:"color"`
	Stroke float64      `json:"stroke"` // 0: fill; > 0: stroke of that width with round cap and join (no fill)
	X, Y   float64      `json:"-"`
	Pos    [2]float64   `json:"pos"`
}

type Case struct {
	Size  [2]float64  `json:"size"`
	Res   float64     `json:"res"`
	CS    int         `json:"coord_system"`
	Space int         `json:"color_space"`
	View  gen.MatSpec `json:"view"`
	Draws []Draw      `json:"draws"`
}

var palette = []color.RGBA{{255, 0, 0, 255}, {0, 128, 255, 255}, {30, 200, 60, 255}, {250, 250, 250, 255}, {17, 17, 17, 255}}
var frules = []canvas.FillRule{canvas.NonZero, canvas.EvenOdd, canvas.Positive, canvas.Negative}

func spaces(i int) canvas.ColorSpace {
	switch i {
	case 1:
		return canvas.SRGBColorSpace{}
	case 2:
		return canvas.GammaColorSpace{Gamma: 2.2}
	}
	return canvas.LinearColorSpace{}
}

func genCase(t *rapid.T) Case {
	c := Case{}
	c.Size = [2]float64{float64(gen.Uniform(t, "w", 60, 140)) / 4, float64(gen.Uniform(t, "h", 60, 140)) / 4}
	// resolutions below one pixel per millimetre included (seed C14-7: a bound in millimetres compared with a size in pixels)
	c.Res = []float64{2, 1, 4, 7.3, 3, 0.5, 0.3}[rapid.IntRange(0, 6).Draw(t, "res")]
	c.CS = rapid.IntRange(0, 3).Draw(t, "cs")
	c.Space = rapid.IntRange(0, 2).Draw(t, "space")
	c.View = gen.MatSpec{1, 0, 0, 0, 1, 0}
	if rapid.IntRange(0, 2).Draw(t, "view") > 0 {
		c.View = gen.Matrix(t, rapid.Bool().Draw(t, "sim"))
	}
	n := rapid.IntRange(1, 2).Draw(t, "ndraws")
	for i := 0; i < n; i++ {
		d := Draw{Rule: rapid.IntRange(0, 3).Draw(t, "rule"), Color: (rapid.IntRange(0, 4).Draw(t, "color") + i*2) % 5}
		d.Path = bgen.Operand(t, rapid.IntRange(0, 2).Draw(t, "curved") == 0, rapid.IntRange(0, 2).Draw(t, "smooth") == 0)
		if rapid.IntRange(0, 3).Draw(t, "stroke") == 0 {
			d.Stroke = float64(gen.Uniform(t, "sw", 4, 16)) / 4
			// strokes of open polylines/curves only: closed contours narrower than the width are a C04 matter
			var open gen.PathSpec
			for _, cmd := range d.Path.Cmds {
				switch cmd.Op {
				case "z":
				case "Q", "C", "A":
					// flat polylines only: offsetting of curves is judged by C04 (with its own findings)
					n := len(cmd.A)
					open.Cmds = append(open.Cmds, gen.Cmd{Op: "L", A: []float64{cmd.A[n-2], cmd.A[n-1]}})
				default:
					open.Cmds = append(open.Cmds, cmd)
				}
			}
			d.Path = open
		}
		d.Pos = [2]float64{float64(gen.Uniform(t, "px", -8, 60)) / 4, float64(gen.Uniform(t, "py", -8, 60)) / 4}
		c.Draws = append(c.Draws, d)
	}
	return c
}

func csView(cs int, W, H float64) oracle.Mat {
	switch cs {
	case 1:
		return oracle.Mat{-1, 0, W, 0, 1, 0}
	case 2:
		return oracle.Mat{-1, 0, W, 0, -1, H}
	case 3:
		return oracle.Mat{1, 0, 0, 0, -1, H}
	}
	return oracle.Identity()
}

type layer struct {
	polys  []oracle.Poly // transformed outline (fill) or transformed centre line (stroke)
	rule   int
	col    color.RGBA
	stroke float64 // half width in canvas units after the (similarity) view, 0 for fills
	segs   []oracle.Seg
	m      oracle.Mat
}

func fillsRule(rule, w int) bool {
	switch rule {
	case 0:
		return w != 0
	case 1:
		return w%2 != 0
	case 2:
		return w > 0
	default:
		return w < 0
	}
}

func near(a, b uint8, tol int) bool {
	d := int(a) - int(b)
	return d <= tol && d >= -tol
}

func checkCase(c Case, r *vf.R) error {
	err := checkCase1(c, r)
	if err != nil {
		// strokes and the Positive/Negative rules go through Settle: a wrong region for zero-area spikes or
		// coincident contours is finding F02a of C02 (the panics of the same class are handled below)
		deg := false
		for _, d := range c.Draws {
			if (d.Rule >= 2 || d.Stroke > 0) && degenerate(d.Path) {
				deg = true
			}
		}
		if r.Excluded("F02a", deg) {
			return nil
		}
		// F02c of C02: Settle(Positive/Negative) panics when a vertex lies within the snap distance of an edge
		near := false
		for _, d := range c.Draws {
			if d.Rule >= 2 && d.Stroke == 0 && nearTouch(d.Path) {
				near = true
			}
		}
		if r.Excluded("F02c", near) {
			return nil
		}
	}
	return err
}

// nearTouch: a vertex of the path within 3e-8 (relative to the path's own coordinates; the views of this property
// scale by 0.5 to 2) of an edge it is not part of, without lying exactly on it (class of finding F02c).
func nearTouch(ps gen.PathSpec) bool {
	segs, err := oracle.Decode(ps.Build().Data())
	if err != nil {
		return false
	}
	var vs []oracle.Pt
	for _, s := range segs {
		vs = append(vs, s.End())
	}
	for _, pl := range oracle.Sample(segs, 24) {
		n := len(pl.P)
		for i := 0; i < n; i++ {
			a, b := pl.P[i], pl.P[(i+1)%n]
			if a == b {
				continue
			}
			for _, v := range vs {
				if v == a || v == b {
					continue
				}
				if d := oracle.DistSeg(v, a, b); d > 0 && d < 3e-8 {
					return true
				}
			}
		}
	}
	return false
}

func checkCase1(c Case, r *vf.R) error {
	W, H := c.Size[0], c.Size[1]
	cv := canvas.New(W, H)
	ctx := canvas.NewContext(cv)
	ctx.SetCoordSystem(canvas.CoordSystem(c.CS))
	view := oracle.Mat(c.View)
	if math.Abs(view.Det()) < 1e-3 {
		return nil
	}
	ctx.SetView(c.View.Canvas())
	var layers []layer
	for _, d := range c.Draws {
		p := d.Path.Build()
		if p.Empty() {
			continue
		}
		segs, err := oracle.Decode(append([]float64(nil), p.Data()...))
		if err != nil {
			return vf.Errorf("input not decodable: %v", err)
		}
		ctx.SetFillRule(frules[d.Rule])
		if d.Stroke > 0 {
			if !c.View.IsSimilarity() {
				continue // a stroke under a non-similarity view is not a constant-distance region
			}
			ctx.SetFillColor(canvas.Transparent)
			ctx.SetStrokeColor(palette[d.Color])
			ctx.SetStrokeWidth(d.Stroke)
			ctx.SetStrokeCapper(canvas.RoundCap)
			ctx.SetStrokeJoiner(canvas.RoundJoin)
		} else {
			ctx.SetStrokeColor(canvas.Transparent)
			ctx.SetFillColor(palette[d.Color])
		}
		ctx.DrawPath(d.Pos[0], d.Pos[1], p)
		m := csView(c.CS, W, H).Mul(view).Mul(oracle.Translate(d.Pos[0], d.Pos[1]))
		l := layer{rule: d.Rule, col: palette[d.Color], m: m, segs: segs}
		l.polys = oracle.TransformPolys(oracle.Sample(segs, 64), m)
		if d.Stroke > 0 {
			l.stroke = d.Stroke / 2 * math.Sqrt(math.Abs(m.Det()))
		}
		layers = append(layers, l)
	}
	if len(layers) == 0 {
		return nil
	}
	// snapshot of the canvas through a recording renderer
	snap := func() []rec.Call {
		rr := rec.New(W, H)
		cv.RenderTo(rr)
		return rr.Calls
	}
	before := snap()
	var img, img2 *image.RGBA
	if err := vf.Try("rasterizer.Draw", func() {
		img = rasterizer.Draw(cv, canvas.DPMM(c.Res), spaces(c.Space))
		img2 = rasterizer.Draw(cv, canvas.DPMM(c.Res), spaces(c.Space))
	}); err != nil {
		// strokes and the Positive/Negative rules go through Settle, whose panics on zero-area spikes and
		// coincident contours are finding F02a of C02
		deg := false
		for _, d := range c.Draws {
			if degenerate(d.Path) {
				deg = true
			}
		}
		if r.Excluded("F02a", deg) {
			return nil
		}
		return err
	}
	after := snap()
	if len(before) != len(after) {
		return vf.Errorf("rendering changed the number of canvas layers")
	}
	for i := range before {
		if len(before[i].Data) != len(after[i].Data) || before[i].M != after[i].M {
			return vf.Errorf("rendering changed layer %d of the canvas", i)
		}
		for k := range before[i].Data {
			if before[i].Data[k] != after[i].Data[k] {
				return vf.Errorf("rendering changed the path of layer %d", i)
			}
		}
	}
	if !bytes.Equal(img.Pix, img2.Pix) {
		return vf.Errorf("rendering the same canvas twice gives different images")
	}
	wantW, wantH := int(W*c.Res+0.5), int(H*c.Res+0.5)
	if img.Bounds().Dx() != wantW || img.Bounds().Dy() != wantH {
		return vf.Errorf("image is %dx%d, expected %dx%d for a %vx%v mm canvas at %v px/mm", img.Bounds().Dx(), img.Bounds().Dy(), wantW, wantH, W, H, c.Res)
	}
	px := 1 / c.Res
	in, out := 0, 0
	leftOverhang := false
	for _, l := range layers {
		// F14b: a path that extends beyond the image leaves spurious coverage in the border rows/columns
		if b := oracle.Bounds(l.polys); b.X0-l.stroke < 0 || b.Y0-l.stroke < 0 || b.X1+l.stroke > float64(wantW)/c.Res || b.Y1+l.stroke > float64(wantH)/c.Res {
			leftOverhang = true
		}
	}
	for j := 0; j < wantH; j++ {
		for i := 0; i < wantW; i++ {
			q := oracle.Pt{X: (float64(i) + 0.5) / c.Res, Y: (float64(wantH-j) - 0.5) / c.Res}
			// decide the top-most layer covering q; skip the pixel if any layer is undecided there
			decided := true
			top := -1
			for li, l := range layers {
				if l.stroke > 0 {
					d := math.Inf(1)
					for _, pl := range l.polys {
						_ = pl
					}
					d = oracle.Dist(closedAsDrawn(l.polys), q)
					band := 1.2*px + 0.15*px + 0.02*l.stroke
					if d < l.stroke-band {
						top = li
					} else if d < l.stroke+band {
						decided = false
					}
				} else {
					w, d := oracle.Winding(l.polys, q)
					if d < 1.2*px {
						decided = false
					} else if fillsRule(l.rule, w) {
						top = li
					}
				}
			}
			if !decided {
				continue
			}
			// F14b: when a path extends beyond the left edge of the image, coverage of pixel column 0 is wrong
			if (i == 0 || j == 0 || i == wantW-1 || j == wantH-1) && leftOverhang && r.Excluded("F14b", true) {
				continue
			}
			got := img.RGBAAt(i, j)
			if top < 0 {
				out++
				// coverage below 5 % is anti-aliasing noise of the 26.6 fixed-point scanner
				if got.A > 12 {
					return vf.Errorf("pixel (%d,%d) = %v lies outside every drawn region (canvas point %v) but is painted", i, j, got, q)
				}
			} else {
				in++
				want := layers[top].col
				tol := 2
				if c.Space != 0 {
					tol = 3 // 8-bit quantisation in linear space costs more for dark colours
					if want.R < 48 || want.G < 48 || want.B < 48 {
						tol = 10
					}
				}
				if !near(got.R, want.R, tol) || !near(got.G, want.G, tol) || !near(got.B, want.B, tol) || !near(got.A, want.A, 2) {
					return vf.Errorf("pixel (%d,%d) = %v lies inside the region of draw %d (rule %v, canvas point %v) and should be %v", i, j, got, top, frules[layers[top].rule], q, want)
				}
			}
		}
	}
	if in >= 20 && out >= 20 {
		r.NonTrivial()
	}
	r.ClassIf(len(layers) > 1, "two-draws")
	r.ClassIf(c.CS != 0, "flipped-coordinate-system")
	return nil
}

// degenerate: a two-vertex contour (spike) or two contours with the same vertex set.
func degenerate(ps gen.PathSpec) bool {
	count := map[string]int{}
	var cur []float64
	flush := func() bool {
		if cur == nil {
			return false
		}
		if len(cur) <= 4 {
			return true
		}
		type pt struct{ x, y float64 }
		var pts []pt
		for i := 0; i+1 < len(cur); i += 2 {
			pts = append(pts, pt{cur[i], cur[i+1]})
		}
		sort.Slice(pts, func(i, j int) bool { return pts[i].x < pts[j].x || pts[i].x == pts[j].x && pts[i].y < pts[j].y })
		k := fmt.Sprint(pts)
		count[k]++
		cur = nil
		return count[k] >= 2
	}
	for _, c := range ps.Cmds {
		switch c.Op {
		case "M":
			if flush() {
				return true
			}
			cur = append([]float64{}, c.A...)
		case "z":
			if flush() {
				return true
			}
		default:
			n := len(c.A)
			cur = append(cur, c.A[n-2], c.A[n-1])
		}
	}
	return flush()
}

// closedAsDrawn returns the polys with their closed flag as given (distance to the drawn path only).
func closedAsDrawn(p []oracle.Poly) []oracle.Poly { return p }

func TestRaster(t *testing.T) {
	vf.Run(t, vf.Prop[Case]{Sub: "raster", Gen: genCase, Check: checkCase, Cases: vf.N(600, 6000)})
}
