package c14

import (
	"bytes"
	"image"
	"image/color"
	"testing"

	"github.com/tdewolff/canvas"
	"github.com/tdewolff/canvas/renderers/rasterizer"
	"pgregory.net/rapid"

	"verif/harness/vf"
)

// Rendering leaves the canvas, its paths, its gradients and its images unchanged, and a second rendering gives the same image: canvases with gradient and colour paints and images, in linear and non-linear colour spaces.

type PDraw struct {
	Kind  int       `json:"kind"` // 0 colour fill, 1 linear gradient, 2 radial gradient, 3 image
	Rect  []float64 `json:"rect"`
	Geom  []float64 `json:"geom"`
	Stops [][2]int  `json:"stops"` // offset in eighths, colour index
	Col   int       `json:"col"`
}

type PCase struct {
	Space int     `json:"color_space"`
	Res   float64 `json:"res"`
	Draws []PDraw `json:"draws"`
}

var ppal = []color.RGBA{{255, 0, 0, 255}, {0, 128, 255, 255}, {30, 200, 60, 255}, {200, 200, 200, 255}, {60, 30, 15, 128}, {128, 128, 128, 255}}

func genPurity(t *rapid.T) PCase {
	c := PCase{Space: rapid.IntRange(0, 2).Draw(t, "space"), Res: []float64{1, 2, 3.5}[rapid.IntRange(0, 2).Draw(t, "res")]}
	n := rapid.IntRange(1, 3).Draw(t, "n")
	for i := 0; i < n; i++ {
		d := PDraw{Kind: rapid.IntRange(0, 3).Draw(t, "kind"), Col: rapid.IntRange(0, len(ppal)-1).Draw(t, "col")}
		d.Rect = []float64{float64(rapid.IntRange(0, 20).Draw(t, "x")), float64(rapid.IntRange(0, 15).Draw(t, "y")), float64(rapid.IntRange(5, 25).Draw(t, "w")), float64(rapid.IntRange(5, 20).Draw(t, "h"))}
		d.Geom = []float64{float64(rapid.IntRange(0, 40).Draw(t, "g0")), float64(rapid.IntRange(0, 30).Draw(t, "g1")), float64(rapid.IntRange(0, 40).Draw(t, "g2")), float64(rapid.IntRange(0, 30).Draw(t, "g3")), float64(rapid.IntRange(5, 30).Draw(t, "g4"))}
		ns := rapid.IntRange(2, 4).Draw(t, "ns")
		off := 0
		for k := 0; k < ns; k++ {
			d.Stops = append(d.Stops, [2]int{off, rapid.IntRange(0, len(ppal)-1).Draw(t, "sc")})
			off += rapid.IntRange(1, 3).Draw(t, "doff")
			if off > 8 {
				off = 8
			}
		}
		c.Draws = append(c.Draws, d)
	}
	return c
}

func checkPurity(c PCase, r *vf.R) error {
	cv := canvas.New(40, 30)
	ctx := canvas.NewContext(cv)
	var lin []*canvas.LinearGradient
	var rad []*canvas.RadialGradient
	var imgs []*image.RGBA
	hasGrad, hasImg := false, false
	for _, d := range c.Draws {
		var stops canvas.Stops
		for _, s := range d.Stops {
			stops.Add(float64(s[0])/8, ppal[s[1]])
		}
		switch d.Kind {
		case 0:
			ctx.SetFillColor(ppal[d.Col])
			ctx.DrawPath(d.Rect[0], d.Rect[1], canvas.Rectangle(d.Rect[2], d.Rect[3]))
		case 1:
			g := canvas.NewLinearGradient(canvas.Point{X: d.Geom[0], Y: d.Geom[1]}, canvas.Point{X: d.Geom[2] + 1, Y: d.Geom[3]})
			g.Stops = stops
			lin = append(lin, g)
			hasGrad = true
			ctx.SetFillGradient(g)
			ctx.DrawPath(d.Rect[0], d.Rect[1], canvas.Rectangle(d.Rect[2], d.Rect[3]))
		case 2:
			g := canvas.NewRadialGradient(canvas.Point{X: d.Geom[0], Y: d.Geom[1]}, 0, canvas.Point{X: d.Geom[0], Y: d.Geom[1]}, d.Geom[4])
			g.Stops = stops
			rad = append(rad, g)
			hasGrad = true
			ctx.SetFillGradient(g)
			ctx.DrawPath(d.Rect[0], d.Rect[1], canvas.Ellipse(d.Rect[2]/2, d.Rect[3]/2))
		case 3:
			img := image.NewRGBA(image.Rect(0, 0, 4, 3))
			for i := range img.Pix {
				img.Pix[i] = uint8(37*i + 11*d.Col)
				if i%4 == 3 {
					img.Pix[i] = 255
				}
			}
			imgs = append(imgs, img)
			hasImg = true
			ctx.DrawImage(d.Rect[0], d.Rect[1], img, canvas.DPMM(0.5))
		}
	}
	r.ClassIf(hasGrad, "gradient")
	r.ClassIf(hasImg, "image")
	r.ClassIf(c.Space != 0, "non-linear-colour-space")
	if (hasGrad || hasImg) && c.Space != 0 {
		r.NonTrivial()
	}
	snapshot := func() []byte {
		var b bytes.Buffer
		for _, g := range lin {
			for _, s := range g.Stops {
				b.Write([]byte{s.Color.R, s.Color.G, s.Color.B, s.Color.A, byte(s.Offset * 8)})
			}
		}
		for _, g := range rad {
			for _, s := range g.Stops {
				b.Write([]byte{s.Color.R, s.Color.G, s.Color.B, s.Color.A, byte(s.Offset * 8)})
			}
		}
		for _, im := range imgs {
			b.Write(im.Pix)
		}
		return b.Bytes()
	}
	before := snapshot()
	var a, b2 *image.RGBA
	if err := vf.Try("rasterizing twice", func() {
		a = rasterizer.Draw(cv, canvas.DPMM(c.Res), spaces(c.Space))
		b2 = rasterizer.Draw(cv, canvas.DPMM(c.Res), spaces(c.Space))
	}); err != nil {
		return err
	}
	if after := snapshot(); !bytes.Equal(before, after) {
		for i := range before {
			if before[i] != after[i] {
				return vf.Errorf("rendering changed the user's gradient stops or image pixels (byte %d of the snapshot: %d -> %d) in colour space %T", i, before[i], after[i], spaces(c.Space))
			}
		}
	}
	if !bytes.Equal(a.Pix, b2.Pix) {
		for i := range a.Pix {
			if a.Pix[i] != b2.Pix[i] {
				return vf.Errorf("rendering the same canvas twice gives different images (first difference at pixel %d: %v and %v)", i/4, a.Pix[i/4*4:i/4*4+4], b2.Pix[i/4*4:i/4*4+4])
			}
		}
	}
	return nil
}

func TestPurity(t *testing.T) {
	vf.Run(t, vf.Prop[PCase]{Sub: "purity", Gen: genPurity, Check: checkPurity, Cases: vf.N(400, 5000)})
}
