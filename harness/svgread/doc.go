package svgread

import (
	"bytes"
	"encoding/base64"
	"encoding/xml"
	"fmt"
	"image"
	"image/jpeg"
	"image/png"
	"math"
	"strconv"
	"strings"

	"verif/harness/dl"
	"verif/harness/oracle"
)

// ReadDoc interprets an SVG document (SVG 1.1 plus the SVG 2 'arcs' line join) into a display list: path and image elements with presentation attributes and style properties, gradients referenced by url(#id), masks on images. Text elements are counted, not interpreted.
func ReadDoc(b []byte) (*dl.Doc, int, error) {
	dec := xml.NewDecoder(bytes.NewReader(b))
	doc := &dl.Doc{YDown: true}
	grads := map[string]*dl.Gradient{}
	masks := map[string]*dl.Image{}
	texts := 0
	var curGrad *dl.Gradient
	var curMask string
	depth := 0
	seenRoot := false
	unit := 1.0 // millimetres per user unit
	for {
		tok, err := dec.Token()
		if err != nil {
			if err.Error() == "EOF" {
				break
			}
			return nil, 0, fmt.Errorf("XML: %v", err)
		}
		switch t := tok.(type) {
		case xml.StartElement:
			depth++
			a := map[string]string{}
			for _, at := range t.Attr {
				a[at.Name.Local] = at.Value
			}
			switch t.Name.Local {
			case "svg":
				if seenRoot {
					return nil, 0, fmt.Errorf("nested svg element")
				}
				seenRoot = true
				w, wu, err1 := length(a["width"])
				h, hu, err2 := length(a["height"])
				if err1 != nil || err2 != nil {
					return nil, 0, fmt.Errorf("svg width/height: %q %q", a["width"], a["height"])
				}
				vb := strings.Fields(strings.ReplaceAll(a["viewBox"], ",", " "))
				if len(vb) != 4 {
					return nil, 0, fmt.Errorf("viewBox %q", a["viewBox"])
				}
				var v [4]float64
				for i := range v {
					v[i], err = strconv.ParseFloat(vb[i], 64)
					if err != nil {
						return nil, 0, fmt.Errorf("viewBox %q", a["viewBox"])
					}
				}
				if v[0] != 0 || v[1] != 0 {
					return nil, 0, fmt.Errorf("viewBox origin %q not handled", a["viewBox"])
				}
				if wu != hu {
					return nil, 0, fmt.Errorf("width and height in different units")
				}
				// millimetres per user unit; uniform scaling is assumed (preserveAspectRatio would letterbox otherwise)
				ux, uy := w*wu/v[2], h*hu/v[3]
				if math.Abs(ux-uy) > 1e-9*ux {
					return nil, 0, fmt.Errorf("viewBox aspect %v differs from width/height", a["viewBox"])
				}
				unit = ux
				doc.W, doc.H = w*wu, h*hu
			case "defs", "g", "style":
			case "linearGradient", "radialGradient":
				if a["gradientUnits"] != "userSpaceOnUse" {
					return nil, 0, fmt.Errorf("gradientUnits %q not handled", a["gradientUnits"])
				}
				g := &dl.Gradient{}
				get := func(k string, def float64) float64 {
					if s, ok := a[k]; ok {
						f, err := strconv.ParseFloat(s, 64)
						if err == nil {
							return f * unit
						}
					}
					return def
				}
				if t.Name.Local == "linearGradient" {
					g.X0, g.Y0, g.X1, g.Y1 = get("x1", 0), get("y1", 0), get("x2", math.NaN()), get("y2", 0)
					if math.IsNaN(g.X1) {
						return nil, 0, fmt.Errorf("linearGradient without x2")
					}
				} else {
					g.Radial = true
					g.X1, g.Y1, g.R1 = get("cx", math.NaN()), get("cy", math.NaN()), get("r", math.NaN())
					g.X0, g.Y0, g.R0 = get("fx", g.X1), get("fy", g.Y1), get("fr", 0)
					if math.IsNaN(g.X1) || math.IsNaN(g.Y1) || math.IsNaN(g.R1) {
						return nil, 0, fmt.Errorf("radialGradient without cx, cy, r")
					}
				}
				if a["id"] == "" {
					return nil, 0, fmt.Errorf("gradient without id")
				}
				grads[a["id"]] = g
				curGrad = g
			case "stop":
				if curGrad == nil {
					return nil, 0, fmt.Errorf("stop outside a gradient")
				}
				off, err := strconv.ParseFloat(strings.TrimSuffix(a["offset"], "%"), 64)
				if err != nil {
					return nil, 0, fmt.Errorf("stop offset %q", a["offset"])
				}
				if strings.HasSuffix(a["offset"], "%") {
					off /= 100
				}
				off = math.Max(0, math.Min(1, off))
				if n := len(curGrad.Stops); n > 0 && off < curGrad.Stops[n-1].Off {
					off = curGrad.Stops[n-1].Off // each offset is at least the previous one
				}
				props := styleProps(a)
				c, ok, err := cssColor(props["stop-color"])
				if err != nil {
					return nil, 0, err
				}
				if !ok {
					c = dl.RGBA{A: 1}
				}
				if so, ok := props["stop-opacity"]; ok {
					f, _ := strconv.ParseFloat(so, 64)
					c.A *= f
				}
				curGrad.Stops = append(curGrad.Stops, dl.Stop{Off: off, C: c})
			case "mask":
				curMask = a["id"]
			case "path":
				segs, err := ParsePathData(a["d"])
				if err != nil {
					return nil, 0, fmt.Errorf("path data %q: %v", clipStr(a["d"], 60), err)
				}
				for i := range segs {
					segs[i] = scaleSeg(segs[i], unit)
				}
				it := dl.Item{Segs: segs}
				props := styleProps(a)
				fill, err := paint(props, "fill", "black", grads)
				if err != nil {
					return nil, 0, err
				}
				it.Fill = fill
				if it.Fill != nil {
					if o, ok := props["fill-opacity"]; ok {
						f, _ := strconv.ParseFloat(o, 64)
						it.Fill.Color.A *= f
					}
				}
				switch props["fill-rule"] {
				case "", "nonzero":
				case "evenodd":
					it.EvenOdd = true
				default:
					return nil, 0, fmt.Errorf("fill-rule %q", props["fill-rule"])
				}
				sp, err := paint(props, "stroke", "none", grads)
				if err != nil {
					return nil, 0, err
				}
				if sp != nil {
					st := &dl.Stroke{Paint: *sp, Width: 1, MiterLimit: 4}
					if s, ok := props["stroke-width"]; ok {
						st.Width, _, err = length(s)
						if err != nil {
							return nil, 0, fmt.Errorf("stroke-width %q", s)
						}
					}
					st.Width *= unit
					switch props["stroke-linecap"] {
					case "", "butt":
					case "round":
						st.Cap = dl.CapRound
					case "square":
						st.Cap = dl.CapSquare
					default:
						return nil, 0, fmt.Errorf("stroke-linecap %q", props["stroke-linecap"])
					}
					switch props["stroke-linejoin"] {
					case "", "miter":
					case "round":
						st.Join = dl.JoinRound
					case "bevel":
						st.Join = dl.JoinBevel
					case "arcs":
						st.Join = dl.JoinArcs
					default:
						return nil, 0, fmt.Errorf("stroke-linejoin %q", props["stroke-linejoin"])
					}
					if s, ok := props["stroke-miterlimit"]; ok {
						st.MiterLimit, err = strconv.ParseFloat(s, 64)
						if err != nil || st.MiterLimit < 1 {
							return nil, 0, fmt.Errorf("stroke-miterlimit %q", s)
						}
					}
					if s, ok := props["stroke-dasharray"]; ok && s != "none" {
						sum := 0.0
						for _, f := range strings.Fields(strings.ReplaceAll(s, ",", " ")) {
							d, _, err := length(f)
							if err != nil || d < 0 {
								return nil, 0, fmt.Errorf("stroke-dasharray %q", s)
							}
							st.Dashes = append(st.Dashes, d*unit)
							sum += d
						}
						if sum == 0 {
							st.Dashes = nil // all zero: solid line
						} else if len(st.Dashes)%2 == 1 {
							st.Dashes = append(st.Dashes, st.Dashes...)
						}
					}
					if s, ok := props["stroke-dashoffset"]; ok {
						st.DashOffset, _, err = length(s)
						if err != nil {
							return nil, 0, fmt.Errorf("stroke-dashoffset %q", s)
						}
						st.DashOffset *= unit
					}
					if o, ok := props["stroke-opacity"]; ok {
						f, _ := strconv.ParseFloat(o, 64)
						st.Paint.Color.A *= f
					}
					if st.Width > 0 {
						it.Stroke = st
					}
				}
				if o, ok := props["opacity"]; ok {
					return nil, 0, fmt.Errorf("group opacity %q not handled", o)
				}
				if _, ok := a["transform"]; ok {
					return nil, 0, fmt.Errorf("transform on a path not handled")
				}
				if it.Fill != nil || it.Stroke != nil {
					doc.Items = append(doc.Items, it)
				}
			case "image":
				w, err1 := strconv.Atoi(a["width"])
				h, err2 := strconv.Atoi(a["height"])
				if err1 != nil || err2 != nil {
					return nil, 0, fmt.Errorf("image width/height %q %q", a["width"], a["height"])
				}
				href := a["href"]
				i := strings.Index(href, ";base64,")
				if !strings.HasPrefix(href, "data:") || i < 0 {
					return nil, 0, fmt.Errorf("image href is not a base64 data URL")
				}
				raw, err := base64.StdEncoding.DecodeString(href[i+8:])
				if err != nil {
					return nil, 0, fmt.Errorf("image data: %v", err)
				}
				var img image.Image
				switch href[5:i] {
				case "image/png":
					img, err = png.Decode(bytes.NewReader(raw))
				case "image/jpeg":
					img, err = jpeg.Decode(bytes.NewReader(raw))
				default:
					return nil, 0, fmt.Errorf("image type %q", href[5:i])
				}
				if err != nil {
					return nil, 0, fmt.Errorf("image data: %v", err)
				}
				m, err := transform(a["transform"])
				if err != nil {
					return nil, 0, err
				}
				bw, bh := img.Bounds().Dx(), img.Bounds().Dy()
				im := &dl.Image{W: bw, H: bh, Pix: make([]dl.RGBA, bw*bh)}
				for y := 0; y < bh; y++ {
					for x := 0; x < bw; x++ {
						r, g, bb, al := img.At(img.Bounds().Min.X+x, img.Bounds().Min.Y+y).RGBA()
						if al != 0 {
							im.Pix[y*bw+x] = dl.RGBA{R: float64(r) / float64(al), G: float64(g) / float64(al), B: float64(bb) / float64(al), A: float64(al) / 65535}
						}
					}
				}
				// the image is scaled to width x height user units (preserveAspectRatio is irrelevant when the aspect is kept)
				if w*bh != h*bw {
					return nil, 0, fmt.Errorf("image %dx%d placed in %dx%d: aspect not kept", bw, bh, w, h)
				}
				im.M = oracle.Scale(unit, unit).Mul(m).Mul(oracle.Scale(float64(w)/float64(bw), float64(h)/float64(bh)))
				if curMask != "" {
					masks[curMask] = im
				} else {
					if ref := a["mask"]; ref != "" {
						id := strings.TrimSuffix(strings.TrimPrefix(ref, "url(#"), ")")
						mk, ok := masks[id]
						if !ok {
							return nil, 0, fmt.Errorf("mask %q not defined before use", ref)
						}
						if mk.W != im.W || mk.H != im.H {
							return nil, 0, fmt.Errorf("mask size differs from the image")
						}
						// luminance mask in the image's own coordinate system
						for k := range im.Pix {
							l := 0.2125*mk.Pix[k].R + 0.7154*mk.Pix[k].G + 0.0721*mk.Pix[k].B
							im.Pix[k].A *= l * mk.Pix[k].A
						}
					}
					doc.Items = append(doc.Items, dl.Item{Image: im})
				}
			case "text":
				texts++
			case "tspan":
			default:
				return nil, 0, fmt.Errorf("element <%s> not handled", t.Name.Local)
			}
		case xml.EndElement:
			depth--
			switch t.Name.Local {
			case "linearGradient", "radialGradient":
				curGrad = nil
			case "mask":
				curMask = ""
			}
		}
	}
	if !seenRoot {
		return nil, 0, fmt.Errorf("no svg element")
	}
	return doc, texts, nil
}

func clipStr(s string, n int) string {
	if len(s) > n {
		return s[:n] + "..."
	}
	return s
}

func scaleSeg(s oracle.Seg, f float64) oracle.Seg {
	if f == 1 {
		return s
	}
	out := oracle.Seg{Cmd: s.Cmd, P0: s.P0.Mul(f), Args: append([]float64(nil), s.Args...)}
	switch s.Cmd {
	case oracle.ArcTo:
		out.Args[0] *= f
		out.Args[1] *= f
		out.Args[4] *= f
		out.Args[5] *= f
	default:
		for i := range out.Args {
			out.Args[i] *= f
		}
	}
	return out
}

// length parses a CSS/SVG length and returns the number and the millimetres per unit (1 for unit-less user units).
func length(s string) (float64, float64, error) {
	s = strings.TrimSpace(s)
	units := []struct {
		suffix string
		mm     float64
	}{{"mm", 1}, {"cm", 10}, {"in", 25.4}, {"pt", 25.4 / 72}, {"pc", 25.4 / 6}, {"px", 25.4 / 96}}
	for _, u := range units {
		if strings.HasSuffix(s, u.suffix) {
			f, err := strconv.ParseFloat(strings.TrimSuffix(s, u.suffix), 64)
			return f, u.mm, err
		}
	}
	f, err := strconv.ParseFloat(s, 64)
	return f, 1, err
}

// styleProps merges presentation attributes with the style attribute (which takes precedence).
func styleProps(a map[string]string) map[string]string {
	p := map[string]string{}
	for k, v := range a {
		p[k] = strings.TrimSpace(v)
	}
	for _, decl := range strings.Split(a["style"], ";") {
		if i := strings.IndexByte(decl, ':'); i > 0 {
			p[strings.TrimSpace(decl[:i])] = strings.TrimSpace(decl[i+1:])
		}
	}
	return p
}

func paint(props map[string]string, key, def string, grads map[string]*dl.Gradient) (*dl.Paint, error) {
	v, ok := props[key]
	if !ok {
		v = def
	}
	if v == "none" {
		return nil, nil
	}
	if strings.HasPrefix(v, "url(#") && strings.HasSuffix(v, ")") {
		g, ok := grads[v[5:len(v)-1]]
		if !ok {
			return nil, fmt.Errorf("%s refers to %s, which is not defined before use", key, v)
		}
		return &dl.Paint{Grad: g, Color: dl.RGBA{A: 1}}, nil
	}
	c, ok, err := cssColor(v)
	if err != nil || !ok {
		return nil, fmt.Errorf("%s colour %q: %v", key, v, err)
	}
	return &dl.Paint{Color: c}, nil
}

var namedColors = map[string][3]int{"black": {0, 0, 0}, "silver": {192, 192, 192}, "gray": {128, 128, 128}, "grey": {128, 128, 128}, "white": {255, 255, 255}, "maroon": {128, 0, 0}, "red": {255, 0, 0}, "purple": {128, 0, 128}, "fuchsia": {255, 0, 255}, "green": {0, 128, 0}, "lime": {0, 255, 0}, "olive": {128, 128, 0}, "yellow": {255, 255, 0}, "navy": {0, 0, 128}, "blue": {0, 0, 255}, "teal": {0, 128, 128}, "aqua": {0, 255, 255}, "orange": {255, 165, 0}}

// cssColor parses #rgb, #rrggbb, rgb(), rgba() and the basic colour keywords.
func cssColor(s string) (dl.RGBA, bool, error) {
	s = strings.TrimSpace(strings.ToLower(s))
	if s == "" {
		return dl.RGBA{}, false, nil
	}
	if s == "transparent" {
		return dl.RGBA{}, true, nil
	}
	if c, ok := namedColors[s]; ok {
		return dl.RGBA{R: float64(c[0]) / 255, G: float64(c[1]) / 255, B: float64(c[2]) / 255, A: 1}, true, nil
	}
	if s[0] == '#' {
		h := s[1:]
		if len(h) == 3 {
			h = string([]byte{h[0], h[0], h[1], h[1], h[2], h[2]})
		}
		if len(h) != 6 {
			return dl.RGBA{}, false, fmt.Errorf("colour %q", s)
		}
		v, err := strconv.ParseUint(h, 16, 32)
		if err != nil {
			return dl.RGBA{}, false, fmt.Errorf("colour %q", s)
		}
		return dl.RGBA{R: float64(v>>16&255) / 255, G: float64(v>>8&255) / 255, B: float64(v&255) / 255, A: 1}, true, nil
	}
	if (strings.HasPrefix(s, "rgb(") || strings.HasPrefix(s, "rgba(")) && strings.HasSuffix(s, ")") {
		parts := strings.Split(s[strings.IndexByte(s, '(')+1:len(s)-1], ",")
		if len(parts) != 3 && len(parts) != 4 {
			return dl.RGBA{}, false, fmt.Errorf("colour %q", s)
		}
		var v [4]float64
		v[3] = 1
		for i, p := range parts {
			p = strings.TrimSpace(p)
			pct := strings.HasSuffix(p, "%")
			f, err := strconv.ParseFloat(strings.TrimSuffix(p, "%"), 64)
			if err != nil {
				return dl.RGBA{}, false, fmt.Errorf("colour %q", s)
			}
			if i < 3 {
				if pct {
					f = f / 100 * 255
				}
				v[i] = math.Max(0, math.Min(255, f)) / 255
			} else {
				if pct {
					f /= 100
				}
				v[3] = math.Max(0, math.Min(1, f))
			}
		}
		return dl.RGBA{R: v[0], G: v[1], B: v[2], A: v[3]}, true, nil
	}
	return dl.RGBA{}, false, fmt.Errorf("colour %q not understood", s)
}

// transform parses an SVG transform list.
func transform(s string) (oracle.Mat, error) {
	m := oracle.Identity()
	s = strings.TrimSpace(s)
	for s != "" {
		i := strings.IndexByte(s, '(')
		j := strings.IndexByte(s, ')')
		if i < 0 || j < i {
			return m, fmt.Errorf("transform %q", s)
		}
		name := strings.TrimSpace(s[:i])
		var args []float64
		for _, f := range strings.Fields(strings.ReplaceAll(s[i+1:j], ",", " ")) {
			v, err := strconv.ParseFloat(f, 64)
			if err != nil {
				return m, fmt.Errorf("transform argument %q", f)
			}
			args = append(args, v)
		}
		var t oracle.Mat
		switch {
		case name == "matrix" && len(args) == 6:
			t = oracle.Mat{args[0], args[2], args[4], args[1], args[3], args[5]}
		case name == "translate" && len(args) == 1:
			t = oracle.Translate(args[0], 0)
		case name == "translate" && len(args) == 2:
			t = oracle.Translate(args[0], args[1])
		case name == "scale" && len(args) == 1:
			t = oracle.Scale(args[0], args[0])
		case name == "scale" && len(args) == 2:
			t = oracle.Scale(args[0], args[1])
		case name == "rotate" && len(args) == 1:
			t = oracle.Rotate(args[0])
		case name == "rotate" && len(args) == 3:
			t = oracle.Translate(args[1], args[2]).Mul(oracle.Rotate(args[0])).Mul(oracle.Translate(-args[1], -args[2]))
		case name == "skewX" && len(args) == 1:
			t = oracle.Shear(math.Tan(args[0]*math.Pi/180), 0)
		case name == "skewY" && len(args) == 1:
			t = oracle.Shear(0, math.Tan(args[0]*math.Pi/180))
		default:
			return m, fmt.Errorf("transform %q with %d arguments", name, len(args))
		}
		m = m.Mul(t)
		s = strings.TrimLeft(s[j+1:], " ,\t\n")
	}
	return m, nil
}
