// Package svgread contains independent readers for SVG syntax written from the SVG 1.1 specification.
// It must not import canvas.
package svgread

import (
	"fmt"
	"strconv"

	"verif/harness/geo"
	"verif/harness/oracle"
)

type pdParser struct {
	s string
	i int
}

func (p *pdParser) ws() {
	for p.i < len(p.s) && (p.s[p.i] == ' ' || p.s[p.i] == '\t' || p.s[p.i] == '\n' || p.s[p.i] == '\r') { // SVG 1.1 wsp; the form feed that SVG 2 adds is not required of a reader
		p.i++
	}
}

func (p *pdParser) commaWs() {
	p.ws()
	if p.i < len(p.s) && p.s[p.i] == ',' {
		p.i++
		p.ws()
	}
}

// number per the SVG 1.1 path grammar: sign? (digits "." digits? | "." digits | digits) exponent?
func (p *pdParser) number() (float64, bool) {
	st := p.i
	i := p.i
	if i < len(p.s) && (p.s[i] == '+' || p.s[i] == '-') {
		i++
	}
	nd := 0
	for i < len(p.s) && p.s[i] >= '0' && p.s[i] <= '9' {
		i++
		nd++
	}
	if i < len(p.s) && p.s[i] == '.' {
		i++
		for i < len(p.s) && p.s[i] >= '0' && p.s[i] <= '9' {
			i++
			nd++
		}
	}
	if nd == 0 {
		return 0, false
	}
	if i < len(p.s) && (p.s[i] == 'e' || p.s[i] == 'E') {
		j := i + 1
		if j < len(p.s) && (p.s[j] == '+' || p.s[j] == '-') {
			j++
		}
		k := j
		for k < len(p.s) && p.s[k] >= '0' && p.s[k] <= '9' {
			k++
		}
		if k > j {
			i = k
		}
	}
	v, err := strconv.ParseFloat(p.s[st:i], 64)
	if err != nil {
		return 0, false
	}
	p.i = i
	return v, true
}

func (p *pdParser) flag() (bool, bool) {
	if p.i < len(p.s) && (p.s[p.i] == '0' || p.s[p.i] == '1') {
		p.i++
		return p.s[p.i-1] == '1', true
	}
	return false, false
}

// ParsePathData parses SVG path data (SVG 1.1 section 8.3) into an independent segment model.
func ParsePathData(s string) ([]oracle.Seg, error) {
	p := &pdParser{s: s}
	b := &geo.Builder{}
	var cur, start oracle.Pt
	var lastCubicCP, lastQuadCP oracle.Pt
	prev := byte(0)
	p.ws()
	first := true
	for p.i < len(p.s) {
		c := p.s[p.i]
		if !((c >= 'A' && c <= 'Z') || (c >= 'a' && c <= 'z')) {
			return nil, fmt.Errorf("expected command at %d", p.i)
		}
		p.i++
		rel := c >= 'a'
		C := c
		if rel {
			C = c - 'a' + 'A'
		}
		if first && C != 'M' {
			return nil, fmt.Errorf("path data must start with a moveto")
		}
		first = false
		n := map[byte]int{'M': 2, 'L': 2, 'H': 1, 'V': 1, 'C': 6, 'S': 4, 'Q': 4, 'T': 2, 'A': 7, 'Z': 0}
		cnt, ok := n[C]
		if !ok {
			return nil, fmt.Errorf("unknown command %c", c)
		}
		p.ws()
		if C == 'Z' {
			b.Close()
			cur = start
			prev = 'Z'
			p.ws()
			continue
		}
		rep := 0
		for {
			var a [7]float64
			var fl [2]bool
			for k := 0; k < cnt; k++ {
				if C == 'A' && (k == 3 || k == 4) {
					f, ok := p.flag()
					if !ok {
						return nil, fmt.Errorf("flag expected at %d", p.i)
					}
					fl[k-3] = f
				} else {
					v, ok := p.number()
					if !ok {
						if k == 0 && rep > 0 {
							goto next
						}
						return nil, fmt.Errorf("number expected at %d", p.i)
					}
					a[k] = v
				}
				if k < cnt-1 {
					p.commaWs()
				}
			}
			{
				ox, oy := 0.0, 0.0
				if rel {
					ox, oy = cur.X, cur.Y
				}
				cc := C
				if C == 'M' && rep > 0 {
					cc = 'L' // subsequent pairs after a moveto are implicit linetos
				}
				if cc != 'M' {
					b.ReopenIfClosed()
				}
				switch cc {
				case 'M':
					cur = oracle.Pt{X: a[0] + ox, Y: a[1] + oy}
					start = cur
					b.MoveTo(cur.X, cur.Y)
				case 'L':
					cur = oracle.Pt{X: a[0] + ox, Y: a[1] + oy}
					b.LineTo(cur.X, cur.Y)
				case 'H':
					cur = oracle.Pt{X: a[0] + ox, Y: cur.Y}
					b.LineTo(cur.X, cur.Y)
				case 'V':
					cur = oracle.Pt{X: cur.X, Y: a[0] + oy}
					b.LineTo(cur.X, cur.Y)
				case 'C':
					lastCubicCP = oracle.Pt{X: a[2] + ox, Y: a[3] + oy}
					b.CubeTo(a[0]+ox, a[1]+oy, a[2]+ox, a[3]+oy, a[4]+ox, a[5]+oy)
					cur = oracle.Pt{X: a[4] + ox, Y: a[5] + oy}
				case 'S':
					cp1 := cur
					if prev == 'C' || prev == 'S' {
						cp1 = oracle.Pt{X: 2*cur.X - lastCubicCP.X, Y: 2*cur.Y - lastCubicCP.Y}
					}
					lastCubicCP = oracle.Pt{X: a[0] + ox, Y: a[1] + oy}
					b.CubeTo(cp1.X, cp1.Y, a[0]+ox, a[1]+oy, a[2]+ox, a[3]+oy)
					cur = oracle.Pt{X: a[2] + ox, Y: a[3] + oy}
				case 'Q':
					lastQuadCP = oracle.Pt{X: a[0] + ox, Y: a[1] + oy}
					b.QuadTo(a[0]+ox, a[1]+oy, a[2]+ox, a[3]+oy)
					cur = oracle.Pt{X: a[2] + ox, Y: a[3] + oy}
				case 'T':
					cp := cur
					if prev == 'Q' || prev == 'T' {
						cp = oracle.Pt{X: 2*cur.X - lastQuadCP.X, Y: 2*cur.Y - lastQuadCP.Y}
					}
					lastQuadCP = cp
					b.QuadTo(cp.X, cp.Y, a[0]+ox, a[1]+oy)
					cur = oracle.Pt{X: a[0] + ox, Y: a[1] + oy}
				case 'A':
					b.ArcTo(a[0], a[1], a[2], fl[0], fl[1], a[5]+ox, a[6]+oy)
					cur = oracle.Pt{X: a[5] + ox, Y: a[6] + oy}
				}
				if cc == 'M' && rep == 0 {
					prev = 'M'
				} else {
					prev = cc
				}
				if b.HasCur {
					start = b.Start
				}
			}
			rep++
			p.commaWs()
			if p.i >= len(p.s) {
				break
			}
			if ch := p.s[p.i]; (ch >= 'A' && ch <= 'Z') || (ch >= 'a' && ch <= 'z') {
				if ch != 'e' && ch != 'E' {
					break
				}
			}
		}
	next:
		p.ws()
	}
	return b.Segs, nil
}
