package c12

import (
	"fmt"
	"image/color"
	"math"

	"verif/harness/dl"
	"verif/harness/geo"
	"verif/harness/oracle"
)

// The structural comparison: what each back-end's output means (the display list of the independent interpreter) against what the drawing program says, operation by operation. It needs neither the rasterizer nor the stroker, so it is exact where the pixel comparison is blind (stroke parameters) or noisy (thin strokes).

type xop struct {
	kind    string // fill, stroke, outline (explicitly drawn stroke), image
	draw    int
	segs    []oracle.Seg // in path space
	m       oracle.Mat   // path space -> canvas (y up)
	col     color.RGBA
	evenodd bool
	width   float64 // in canvas millimetres
	cap     int
	join    int // dl.Join*
	limit   float64
	dashes  []float64 // in canvas millimetres
	dashoff float64
	img     int
	imgM    oracle.Mat // image space (u right, v down from the top row) -> canvas (y up)
	// invisible: the dash pattern leaves every subpath entirely in a gap, the operation may be left out
	invisible bool
}

type gop struct {
	kind    string // fill, stroke, image
	item    int
	segs    []oracle.Seg
	paint   dl.Paint
	evenodd bool
	st      *dl.Stroke
	im      *dl.Image
}

func viewMat(v []float64) oracle.Mat {
	switch int(v[0]) {
	case 1:
		return oracle.Translate(v[1], v[2])
	case 2:
		return oracle.Scale(v[1], v[1])
	case 3:
		return oracle.Translate(v[2], v[3]).Mul(oracle.Rotate(v[1]))
	case 4:
		return oracle.Translate(v[1], 0).Mul(oracle.Scale(-1, 1))
	case 5:
		return oracle.Scale(v[1], v[2])
	case 6:
		return oracle.Shear(v[1], 0)
	}
	return oracle.Identity()
}

// nativeStroke tells whether the back-end can express the stroke of the draw itself (SVG 1.1 + arcs, PDF, PostScript: bevel, round and miter joins with a bevel fallback, under similarity transforms).
func nativeStroke(d Draw, backend string) bool {
	if !similarity(d.View) {
		return false
	}
	switch d.Join {
	case 0, 1, 2, 3:
		return true
	case 5:
		return backend == "SVG"
	}
	return false
}

func expectedOps(c Case, backend string) []xop {
	var ops []xop
	for i, d := range c.Draws {
		m := csMat(c).Mul(viewMat(d.View)).Mul(oracle.Translate(d.At[0], d.At[1]))
		if d.Kind == "image" {
			w, h := float64(images[d.Img].Bounds().Dx()), float64(images[d.Img].Bounds().Dy())
			im := m.Mul(oracle.Scale(1/d.Res, 1/d.Res))
			// images keep their upright orientation in flipped coordinate systems: the flip is undone about the image's own centre
			if c.CS == 2 || c.CS == 3 {
				im = im.Mul(oracle.Translate(0, h)).Mul(oracle.Scale(1, -1))
			}
			if c.CS == 1 || c.CS == 2 {
				im = im.Mul(oracle.Translate(w, 0)).Mul(oracle.Scale(-1, 1))
			}
			im = im.Mul(oracle.Translate(0, h)).Mul(oracle.Scale(1, -1))
			ops = append(ops, xop{kind: "image", draw: i, img: d.Img, imgM: im})
			continue
		}
		b := &geo.Builder{}
		drawShape(d, b)
		if d.Fill >= 0 {
			ops = append(ops, xop{kind: "fill", draw: i, segs: b.Segs, m: m, col: palette[d.Fill], evenodd: d.EvenOdd})
		}
		if d.Stroke >= 0 {
			o := xop{kind: "outline", draw: i, segs: b.Segs, m: m, col: palette[d.Stroke]}
			if nativeStroke(d, backend) {
				scale := math.Sqrt(math.Abs(m.Det()))
				w := strokeWidth(d)
				o.kind = "stroke"
				o.width = w * scale
				o.cap = d.Cap
				switch d.Join {
				case 0:
					o.join = dl.JoinBevel
				case 1:
					o.join = dl.JoinRound
				case 5:
					o.join, o.limit = dl.JoinArcs, d.Limit
				default:
					o.join, o.limit = dl.JoinMiter, d.Limit
				}
				// the generated dash lengths are d.Dashes*d.Width millimetres in path space
				for _, x := range d.Dashes {
					o.dashes = append(o.dashes, x*d.Width*scale)
				}
				o.dashoff = d.DashOff * d.Width * scale
			}
			if len(d.Dashes) > 0 {
				var dashes []float64
				for _, x := range d.Dashes {
					dashes = append(dashes, x*d.Width)
				}
				o.invisible = true
				subs, _ := resample(b.Segs, 200)
				for _, sp := range subs {
					t := 0.0
					for k := range sp {
						if k > 0 {
							t += sp[k].Dist(sp[k-1])
						}
						if dashState(dashes, d.DashOff*d.Width, t) {
							o.invisible = false
						}
					}
				}
			}
			ops = append(ops, o)
		}
	}
	return ops
}

func gotOps(doc *dl.Doc) []gop {
	var ops []gop
	for i, it := range doc.Items {
		if it.Image != nil {
			ops = append(ops, gop{kind: "image", item: i, im: it.Image})
			continue
		}
		if it.Fill != nil {
			ops = append(ops, gop{kind: "fill", item: i, segs: it.Segs, paint: *it.Fill, evenodd: it.EvenOdd})
		}
		if it.Stroke != nil {
			ops = append(ops, gop{kind: "stroke", item: i, segs: it.Segs, paint: it.Stroke.Paint, st: it.Stroke})
		}
	}
	return ops
}

func colorErr(want color.RGBA, got dl.RGBA, opaque bool) error {
	a := float64(want.A) / 255
	w := dl.RGBA{R: float64(want.R) / 255 / a, G: float64(want.G) / 255 / a, B: float64(want.B) / 255 / a, A: a}
	if opaque {
		w.A = 1
	}
	// one 8-bit level of the premultiplied colour is 1/(255 a) of the straight colour
	tol := 1.6/255/a + 1e-3
	if math.Abs(w.R-got.R) > tol || math.Abs(w.G-got.G) > tol || math.Abs(w.B-got.B) > tol || math.Abs(w.A-got.A) > 1.6/255 {
		return fmt.Errorf("colour %.3f (straight alpha), expected %.3f from %v", got, w, want)
	}
	return nil
}

// toCanvasPt maps a document point to canvas coordinates (y up).
func toCanvasPt(doc *dl.Doc, p oracle.Pt) oracle.Pt {
	if doc.YDown {
		return oracle.Pt{X: p.X, Y: doc.H - p.Y}
	}
	return p
}

func closeAll(segs []oracle.Seg) []oracle.Seg {
	var out []oracle.Seg
	var start, cur oracle.Pt
	open := false
	flush := func() {
		if open && cur.Dist(start) > 0 {
			out = append(out, oracle.Seg{Cmd: oracle.LineTo, P0: cur, Args: []float64{start.X, start.Y}})
		}
		open = false
	}
	for _, s := range segs {
		switch s.Cmd {
		case oracle.MoveTo:
			flush()
			start, cur = s.End(), s.End()
			out = append(out, s)
			continue
		case oracle.Close:
			out = append(out, oracle.Seg{Cmd: oracle.LineTo, P0: s.P0, Args: []float64{s.Args[0], s.Args[1]}})
			cur = s.End()
			open = false
			continue
		}
		open = true
		out = append(out, s)
		cur = s.End()
	}
	flush()
	return out
}

func minScale(m oracle.Mat) float64 {
	// smallest singular value
	a, b, c, d := m[0], m[1], m[3], m[4]
	s1 := a*a + b*b + c*c + d*d
	s2 := math.Sqrt(math.Max(0, (a*a+b*b-c*c-d*d)*(a*a+b*b-c*c-d*d)+4*(a*c+b*d)*(a*c+b*d)))
	return math.Sqrt(math.Max(0, (s1-s2)/2))
}

// sameRegionBoundary checks the two-sided Hausdorff distance between m(expected) and the geometry found (both with open subpaths closed when closed is set).
func sameRegionBoundary(doc *dl.Doc, want []oracle.Seg, m oracle.Mat, got []oracle.Seg, closed bool, tol float64) error {
	if closed {
		want, got = closeAll(want), closeAll(got)
	}
	for i, s := range want {
		if s.Cmd == oracle.MoveTo {
			continue
		}
		for k := 0; k <= 12; k++ {
			q := m.Apply(s.Eval(float64(k) / 12))
			qd := toCanvasPt(doc, q) // the y flip is an involution
			if d := oracle.PathDist(got, qd, 64); !(d <= tol) {
				return fmt.Errorf("point %.5g of the expected segment %d is %.4g mm away from the geometry in the output", q, i, d)
			}
		}
	}
	inv := m.Inv()
	ms := minScale(m)
	for i, s := range got {
		if s.Cmd == oracle.MoveTo {
			continue
		}
		for k := 0; k <= 12; k++ {
			g := toCanvasPt(doc, s.Eval(float64(k)/12))
			if d := oracle.PathDist(want, inv.Apply(g), 64); !(d*ms <= tol) {
				return fmt.Errorf("point %.5g of segment %d in the output is %.4g mm away from the expected geometry", g, i, d*ms)
			}
		}
	}
	return nil
}

// resample returns n+1 points at equal arc length fractions of each subpath, and whether the subpath is closed.
func resample(segs []oracle.Seg, n int) ([][]oracle.Pt, []bool) {
	var subs [][]oracle.Pt
	var closed []bool
	for _, sp := range geo.Subs(segs) {
		var pts []oracle.Pt
		for _, s := range sp.Segs {
			for k := 0; k <= 64; k++ {
				pts = append(pts, s.Eval(float64(k)/64))
			}
		}
		cum := make([]float64, len(pts))
		for i := 1; i < len(pts); i++ {
			cum[i] = cum[i-1] + pts[i].Dist(pts[i-1])
		}
		total := cum[len(cum)-1]
		out := make([]oracle.Pt, 0, n+1)
		j := 0
		for k := 0; k <= n; k++ {
			target := total * float64(k) / float64(n)
			for j+1 < len(cum) && cum[j+1] < target {
				j++
			}
			if j+1 >= len(pts) || cum[j+1] == cum[j] {
				out = append(out, pts[j])
				continue
			}
			f := (target - cum[j]) / (cum[j+1] - cum[j])
			out = append(out, pts[j].Add(pts[j+1].Sub(pts[j]).Mul(f)))
		}
		subs = append(subs, out)
		closed = append(closed, sp.Closed)
	}
	return subs, closed
}

// sameCourse checks that the output traverses the expected path from the same start in the same direction: points at equal arc length fractions coincide (under a similarity m).
func sameCourse(doc *dl.Doc, want []oracle.Seg, m oracle.Mat, got []oracle.Seg, tol float64) error {
	ws, wc := resample(want, 24)
	gs, gc := resample(got, 24)
	if len(ws) != len(gs) {
		return fmt.Errorf("%d subpaths in the output, %d expected", len(gs), len(ws))
	}
	for i := range ws {
		if wc[i] != gc[i] {
			return fmt.Errorf("subpath %d: closed=%v in the output, expected closed=%v", i, gc[i], wc[i])
		}
		length := 0.0
		for k := 1; k < len(gs[i]); k++ {
			length += gs[i][k].Dist(gs[i][k-1])
		}
		for k := range ws[i] {
			w := m.Apply(ws[i][k])
			g := toCanvasPt(doc, gs[i][k])
			if d := w.Dist(g); d > tol+0.01*length {
				return fmt.Errorf("subpath %d: at %d/24 of its length the output is at %.5g, the path as drawn at %.5g (start or direction differ)", i, k, g, w)
			}
		}
	}
	return nil
}

// dashState tells whether position t along the path is in a dash.
func dashState(dashes []float64, off, t float64) bool {
	if len(dashes) == 0 {
		return true
	}
	if len(dashes)%2 == 1 {
		dashes = append(append([]float64(nil), dashes...), dashes...)
	}
	total := 0.0
	for _, d := range dashes {
		total += d
	}
	x := math.Mod(t+off, total)
	if x < 0 {
		x += total
	}
	for i, d := range dashes {
		if x < d {
			return i%2 == 0
		}
		x -= d
	}
	return true
}

// sameDashes compares the on/off function of two dash patterns over the length of the path (a pattern may be simplified when the path ends before it matters, e.g. to a solid line when the path is shorter than the first dash).
func sameDashes(want []float64, woff float64, got []float64, goff float64, length float64) error {
	mismatch := 0
	const n = 2000
	for k := 0; k < n; k++ {
		t := length * (float64(k) + 0.5) / n
		if dashState(want, woff, t) != dashState(got, goff, t) {
			mismatch++
		}
	}
	// every dash boundary on the path may move by rounding: allow 1/1000 of the length per boundary
	boundaries := 2.0
	if len(want) > 0 {
		total := 0.0
		for _, d := range want {
			total += d
		}
		boundaries += float64(len(want)) * (1 + length/total)
	}
	if float64(mismatch) > 2*boundaries {
		return fmt.Errorf("dash pattern %.5g offset %.5g differs from the expected %.5g offset %.5g on %d of %d positions along the path of length %.5g", got, goff, want, woff, mismatch, n, length)
	}
	return nil
}

// compareStructure matches the operations of the output against the drawing program and returns, for every stroke operation that was verified, the index of the draw it belongs to (keyed by the item index of the display list).
func compareStructure(c Case, backend string, doc *dl.Doc) (map[int]int, error) {
	want := expectedOps(c, backend)
	got := gotOps(doc)
	verified := map[int]int{}
	list := func() string {
		s := "output:"
		for _, g := range got {
			s += " " + g.kind
		}
		s += "; expected:"
		for _, w := range want {
			s += fmt.Sprintf(" %s(draw %d)", w.kind, w.draw)
		}
		return s
	}
	if len(want) != len(got) {
		// operations that paint nothing may be left out
		var visible []xop
		for _, w := range want {
			if !w.invisible {
				visible = append(visible, w)
			}
		}
		if len(visible) == len(got) {
			want = visible
		}
	}
	if len(want) != len(got) {
		return nil, fmt.Errorf("%d painting operations in the output, %d in the drawing (%s)", len(got), len(want), list())
	}
	opaque := backend == "PS"
	for i, w := range want {
		g := got[i]
		where := fmt.Sprintf("operation %d (draw %d, %s)", i, w.draw, w.kind)
		switch w.kind {
		case "image":
			if g.kind != "image" {
				return nil, fmt.Errorf("%s: the output has a %s (%s)", where, g.kind, list())
			}
			gm := g.im.M
			if doc.YDown {
				gm = oracle.Translate(0, doc.H).Mul(oracle.Scale(1, -1)).Mul(gm)
			}
			src := images[w.img]
			if g.im.W != src.Bounds().Dx() || g.im.H != src.Bounds().Dy() {
				return nil, fmt.Errorf("%s: image of %dx%d pixels, expected %v", where, g.im.W, g.im.H, src.Bounds().Size())
			}
			for _, uv := range [][2]float64{{0, 0}, {float64(g.im.W), 0}, {0, float64(g.im.H)}, {float64(g.im.W), float64(g.im.H)}} {
				a, b := gm.Apply(oracle.Pt{X: uv[0], Y: uv[1]}), w.imgM.Apply(oracle.Pt{X: uv[0], Y: uv[1]})
				if a.Dist(b) > 1e-4 {
					return nil, fmt.Errorf("%s: image corner %v is placed at %.6g, expected %.6g", where, uv, a, b)
				}
			}
			for y := 0; y < g.im.H; y++ {
				for x := 0; x < g.im.W; x++ {
					r, gg, b, a := src.At(src.Bounds().Min.X+x, src.Bounds().Min.Y+y).RGBA()
					px := g.im.Pix[y*g.im.W+x]
					wa := float64(a) / 65535
					if opaque {
						wa = 1
					}
					if math.Abs(px.A-wa) > 2.0/255 {
						return nil, fmt.Errorf("%s: pixel (%d,%d) has alpha %.3f, expected %.3f", where, x, y, px.A, wa)
					}
					if a != 0 {
						wr, wg, wb := float64(r)/float64(a), float64(gg)/float64(a), float64(b)/float64(a)
						tol := 2.0/255/(float64(a)/65535) + 1e-3
						if math.Abs(px.R-wr) > tol || math.Abs(px.G-wg) > tol || math.Abs(px.B-wb) > tol {
							return nil, fmt.Errorf("%s: pixel (%d,%d) is %.3f, expected (%.3f %.3f %.3f)", where, x, y, px, wr, wg, wb)
						}
					}
				}
			}
		case "fill", "outline":
			if g.kind != "fill" {
				return nil, fmt.Errorf("%s: the output has a %s (%s)", where, g.kind, list())
			}
			if err := colorErr(w.col, g.paint.Color, opaque); err != nil {
				return nil, fmt.Errorf("%s: %v", where, err)
			}
			if w.kind == "fill" {
				if g.evenodd != w.evenodd {
					return nil, fmt.Errorf("%s: even-odd=%v in the output, the style says %v", where, g.evenodd, w.evenodd)
				}
				tol := 0.02 + 2e-3*geo.Size(g.segs, 1) // arcs may be approximated by Bezier curves
				if err := sameRegionBoundary(doc, w.segs, w.m, g.segs, true, tol); err != nil {
					return nil, fmt.Errorf("%s: %v", where, err)
				}
			} else if g.evenodd {
				return nil, fmt.Errorf("%s: the outline of a stroke is filled with the even-odd rule", where)
			}
		case "stroke":
			if g.kind != "stroke" {
				return nil, fmt.Errorf("%s: the output has a %s (%s)", where, g.kind, list())
			}
			st := g.st
			if err := colorErr(w.col, g.paint.Color, opaque); err != nil {
				return nil, fmt.Errorf("%s: %v", where, err)
			}
			if math.Abs(st.Width-w.width) > 1e-6*(1+w.width) {
				return nil, fmt.Errorf("%s: line width %.8g, expected %.8g", where, st.Width, w.width)
			}
			if st.Cap != w.cap {
				return nil, fmt.Errorf("%s: line cap %d, expected %d", where, st.Cap, w.cap)
			}
			if st.Join != w.join {
				return nil, fmt.Errorf("%s: line join %d, expected %d", where, st.Join, w.join)
			}
			if (w.join == dl.JoinMiter || w.join == dl.JoinArcs) && math.Abs(st.MiterLimit-w.limit) > 1e-6*w.limit {
				return nil, fmt.Errorf("%s: miter limit %.6g, expected %.6g", where, st.MiterLimit, w.limit)
			}
			length := 0.0
			subs, _ := resample(g.segs, 24)
			for _, sp := range subs {
				l := 0.0
				for k := 1; k < len(sp); k++ {
					l += sp[k].Dist(sp[k-1])
				}
				length = math.Max(length, l)
			}
			if err := sameDashes(w.dashes, w.dashoff, st.Dashes, st.DashOffset, length); err != nil {
				return nil, fmt.Errorf("%s: %v", where, err)
			}
			tol := 0.02 + 2e-3*geo.Size(g.segs, 1) // arcs may be approximated by Bezier curves
			if err := sameRegionBoundary(doc, w.segs, w.m, g.segs, false, tol); err != nil {
				return nil, fmt.Errorf("%s: %v", where, err)
			}
			if err := sameCourse(doc, w.segs, w.m, g.segs, tol); err != nil {
				return nil, fmt.Errorf("%s: %v", where, err)
			}
			verified[g.item] = w.draw
		}
	}
	return verified, nil
}
