package c12

import (
	"bytes"
	"fmt"
	"image"
	"image/color"
	"image/png"
	"math"
	"os"
	"testing"

	"github.com/tdewolff/canvas"
	"github.com/tdewolff/canvas/renderers/pdf"
	"github.com/tdewolff/canvas/renderers/ps"
	"github.com/tdewolff/canvas/renderers/rasterizer"
	"github.com/tdewolff/canvas/renderers/svg"
	"pgregory.net/rapid"

	"verif/harness/dl"
	"verif/harness/gen"
	"verif/harness/oracle"
	"verif/harness/pdfread"
	"verif/harness/psread"
	"verif/harness/svgread"
	"verif/harness/vf"
)

func TestMain(m *testing.M) { vf.Main(m, "C12") }

type Draw struct {
	Kind    string    `json:"kind"` // path, image
	Shape   int       `json:"shape"`
	XY      []float64 `json:"xy"`
	Fill    int       `json:"fill"`   // index into palette, -1 none
	Stroke  int       `json:"stroke"` // index into palette, -1 none
	Width   float64   `json:"width"`
	Cap     int       `json:"cap"`
	Join    int       `json:"join"`
	Limit   float64   `json:"limit"`
	Dashes  []float64 `json:"dashes,omitempty"`
	DashOff float64   `json:"dashoff,omitempty"`
	EvenOdd bool      `json:"evenodd,omitempty"`
	View    []float64 `json:"view"` // kind, parameters
	At      []float64 `json:"at"`   // DrawPath position
	Img     int       `json:"img,omitempty"`
	Res     float64   `json:"res,omitempty"`
}

type Case struct {
	W     float64 `json:"w"`
	H     float64 `json:"h"`
	Draws []Draw  `json:"draws"`
	EPS   bool    `json:"eps"`
	CS    int     `json:"coord_system"` // 0-3: CartesianI-IV
}

// opaque colours first; from index nOpaque on the colours have alpha
var palette = []color.RGBA{{255, 0, 0, 255}, {0, 128, 0, 255}, {0, 0, 255, 255}, {0, 0, 0, 255}, {90, 90, 90, 255}, {255, 200, 0, 255}, {100, 50, 25, 128}, {0, 0, 60, 60}, {200, 200, 200, 230}}

const nOpaque = 6

var images []image.Image

func init() {
	op := image.NewNRGBA(image.Rect(0, 0, 4, 3))
	al := image.NewNRGBA(image.Rect(0, 0, 3, 4))
	off := image.NewRGBA(image.Rect(2, 1, 7, 5))
	for y := 0; y < 6; y++ {
		for x := 0; x < 8; x++ {
			op.SetNRGBA(x, y, color.NRGBA{uint8(60 * x), uint8(100 * y), uint8(255 - 60*x), 255})
			al.SetNRGBA(x, y, color.NRGBA{uint8(80 * x), uint8(60 * y), 20, uint8(40 + 50*x + 10*y)})
			off.SetRGBA(x, y, color.RGBA{uint8(30 * x), uint8(40 * y), uint8(20 * (x + y)), 255})
		}
	}
	images = []image.Image{op, off, al} // index 2 has alpha
}

func q(t *rapid.T, label string, lo, hi int) float64 {
	return float64(gen.Uniform(t, label, lo*4, hi*4)) / 4
}

func genDraw(t *rapid.T, w, h float64) Draw {
	d := Draw{Kind: "path"}
	if rapid.IntRange(0, 5).Draw(t, "isimage") == 0 {
		d.Kind = "image"
		d.Img = rapid.IntRange(0, 2).Draw(t, "img")
		d.Res = float64(rapid.IntRange(1, 6).Draw(t, "res")) / 4
		d.At = []float64{q(t, "ix", 0, int(w)), q(t, "iy", 0, int(h))}
	} else {
		d.Shape = rapid.IntRange(0, 6).Draw(t, "shape")
		n := []int{4, 6, 4, 8, 8, 10, 6}[d.Shape]
		for i := 0; i < n; i++ {
			d.XY = append(d.XY, q(t, "xy", 0, int(math.Min(w, h))))
		}
		d.Fill = rapid.IntRange(-1, len(palette)-1).Draw(t, "fill")
		d.Stroke = rapid.IntRange(-1, len(palette)-1).Draw(t, "stroke")
		d.Width = float64(rapid.IntRange(1, 16).Draw(t, "width")) / 4
		d.Cap = rapid.IntRange(0, 2).Draw(t, "cap")
		d.Join = rapid.IntRange(0, 6).Draw(t, "join")
		d.Limit = float64(rapid.IntRange(4, 24).Draw(t, "limit")) / 4
		if rapid.IntRange(0, 2).Draw(t, "dashed") == 0 {
			nd := rapid.IntRange(1, 4).Draw(t, "ndash")
			// dashes are measured in stroke widths; keep the drawn dashes at least 3 pixels long so that the pixel comparison is not dominated by sub-pixel phase
			for i := 0; i < nd; i++ {
				d.Dashes = append(d.Dashes, float64(rapid.IntRange(3, 24).Draw(t, "dash"))/4/d.Width)
			}
			d.DashOff = float64(rapid.IntRange(-24, 24).Draw(t, "dashoff")) / 4 / d.Width
		}
		d.EvenOdd = rapid.Bool().Draw(t, "evenodd")
		d.At = []float64{0, 0}
		if rapid.IntRange(0, 3).Draw(t, "at") == 0 {
			d.At = []float64{q(t, "ax", -10, 10), q(t, "ay", -10, 10)}
		}
	}
	switch k := rapid.IntRange(0, 7).Draw(t, "view"); k {
	case 0, 1:
		d.View = []float64{0}
	case 2:
		d.View = []float64{1, q(t, "tx", -10, 20), q(t, "ty", -10, 20)}
	case 3:
		d.View = []float64{2, float64(rapid.IntRange(2, 8).Draw(t, "scale")) / 4}
	case 4:
		d.View = []float64{3, float64(rapid.IntRange(-12, 12).Draw(t, "rot")) * 15, q(t, "tx", 0, 30), q(t, "ty", 0, 30)}
	case 5:
		d.View = []float64{4, q(t, "tx", 0, 40)} // reflection: a similarity with negative determinant
	case 6:
		d.View = []float64{5, float64(rapid.IntRange(2, 8).Draw(t, "sx")) / 4, float64(rapid.IntRange(2, 8).Draw(t, "sy")) / 4}
	case 7:
		d.View = []float64{6, float64(rapid.IntRange(-4, 4).Draw(t, "shear")) / 4}
	}
	return d
}

func genCase(t *rapid.T) Case {
	c := Case{W: float64(rapid.IntRange(4, 20).Draw(t, "w")) * 5, H: float64(rapid.IntRange(4, 20).Draw(t, "h")) * 5}
	n := rapid.IntRange(1, 5).Draw(t, "ndraws")
	for i := 0; i < n; i++ {
		c.Draws = append(c.Draws, genDraw(t, c.W, c.H))
	}
	c.EPS = rapid.Bool().Draw(t, "eps")
	if rapid.IntRange(0, 2).Draw(t, "flipped") == 0 {
		c.CS = rapid.IntRange(1, 3).Draw(t, "cs")
	}
	return c
}

func view(v []float64) canvas.Matrix {
	switch int(v[0]) {
	case 1:
		return canvas.Identity.Translate(v[1], v[2])
	case 2:
		return canvas.Identity.Scale(v[1], v[1])
	case 3:
		return canvas.Identity.Translate(v[2], v[3]).Rotate(v[1])
	case 4:
		return canvas.Identity.Translate(v[1], 0).ReflectX()
	case 5:
		return canvas.Identity.Scale(v[1], v[2])
	case 6:
		return canvas.Identity.Shear(v[1], 0)
	}
	return canvas.Identity
}

// csMat is the view of the coordinate system: the origin in the corresponding corner, axes pointing into the canvas.
func csMat(c Case) oracle.Mat {
	switch c.CS {
	case 1:
		return oracle.Mat{-1, 0, c.W, 0, 1, 0}
	case 2:
		return oracle.Mat{-1, 0, c.W, 0, -1, c.H}
	case 3:
		return oracle.Mat{1, 0, 0, 0, -1, c.H}
	}
	return oracle.Identity()
}

func similarity(v []float64) bool {
	switch int(v[0]) {
	case 5:
		return v[1] == v[2]
	case 6:
		return v[1] == 0
	}
	return true
}

// spread moves the k-th point by (0.3 k^2, 0.5 k): points that coincide or are collinear in the generated (and especially in the shrunk) case become a small convex arc.
func spread(xy []float64) []float64 {
	out := make([]float64, len(xy))
	for i := 0; i+1 < len(xy); i += 2 {
		k := float64(i / 2)
		out[i], out[i+1] = xy[i]+0.3*k*k, xy[i+1]+0.5*k
	}
	return out
}

// sink is implemented by *canvas.Path and by the independent path model geo.Builder: the same drawing calls produce the library's path and the expected geometry.
type sink interface {
	MoveTo(x, y float64)
	LineTo(x, y float64)
	QuadTo(cpx, cpy, x, y float64)
	CubeTo(cpx1, cpy1, cpx2, cpy2, x, y float64)
	ArcTo(rx, ry, rot float64, large, sweep bool, x, y float64)
	Close()
}

func rot(x, y, deg float64) (float64, float64) {
	sn, cs := math.Sincos(deg * math.Pi / 180)
	return x*cs - y*sn, x*sn + y*cs
}

func drawShape(d Draw, p sink) {
	xy := d.XY
	if d.Shape != 2 && d.Shape != 6 {
		xy = spread(xy)
	}
	switch d.Shape {
	case 0: // open line
		p.MoveTo(xy[0], xy[1])
		p.LineTo(xy[2], xy[3])
	case 1: // triangle
		p.MoveTo(xy[0], xy[1])
		p.LineTo(xy[2], xy[3])
		p.LineTo(xy[4], xy[5])
		p.Close()
	case 2: // ellipse with an aspect of at most 1.6 and radii of at least 3 mm: the curvature radius stays above the stroke width
		rx := 3 + xy[2]/4
		ry := rx * (0.6 + math.Mod(xy[3], 5)/5)
		p.MoveTo(xy[0]+rx, xy[1])
		p.ArcTo(rx, ry, 0, false, true, xy[0]-rx, xy[1])
		p.ArcTo(rx, ry, 0, false, true, xy[0]+rx, xy[1])
		p.Close()
	case 3: // open polyline with three legs
		p.MoveTo(xy[0], xy[1])
		p.LineTo(xy[2], xy[3])
		p.LineTo(xy[4], xy[5])
		p.LineTo(xy[6], xy[7])
	case 4: // a simple lens of a cubic and a quadratic Bezier without cusps
		cx, cy := rot(8+xy[2]/2, 0, (xy[3]-20)*9)
		x3, y3 := xy[0]+cx, xy[1]+cy
		// the cubic leaves the chord by at most 25 degrees, the quadratic by at least 42: they meet only at their end points
		ax, ay := rot(cx/3, cy/3, (math.Mod(xy[4], 10)-5)*5)
		bx, by := rot(cx/3, cy/3, (math.Mod(xy[5], 10)-5)*5)
		k := 0.45 + xy[6]/200
		mx, my := xy[0]+cx/2+cy*k, xy[1]+cy/2-cx*k
		p.MoveTo(xy[0], xy[1])
		p.CubeTo(xy[0]+ax, xy[1]+ay, x3-bx, y3-by, x3, y3)
		p.QuadTo(mx, my, xy[0], xy[1])
		p.Close()
	case 5: // self-intersecting polygon: the fill rules differ
		p.MoveTo(xy[0], xy[1])
		for i := 2; i+1 < len(xy); i += 2 {
			p.LineTo(xy[i], xy[i+1])
		}
		p.Close()
	case 6: // elliptical arc with radii of at least 3 mm and an aspect of at most 1.6
		rx := 3 + xy[2]/4
		ry := rx * (0.6 + math.Mod(xy[3], 5)/5)
		p.MoveTo(xy[0], xy[1])
		p.ArcTo(rx, ry, xy[4]*3, xy[5] > 10, int(xy[5])%2 == 0, xy[0]+2+xy[2]/8, xy[1]+1+xy[3]/8)
	}
}

func mkPath(d Draw) *canvas.Path {
	p := &canvas.Path{}
	drawShape(d, p)
	return p
}

// strokeWidth keeps strokes of curved shapes at most 1 mm wide: their curvature radius is at least 1 mm by construction, so the inner offset curve never degenerates (where the stroker's result depends on its tolerance).
func strokeWidth(d Draw) float64 {
	if (d.Shape == 2 || d.Shape == 4 || d.Shape == 6) && d.Width > 1 {
		return 1
	}
	return d.Width
}

var caps = []canvas.Capper{canvas.ButtCap, canvas.RoundCap, canvas.SquareCap}

func mkJoin(d Draw) canvas.Joiner {
	switch d.Join {
	case 0:
		return canvas.BevelJoin
	case 1:
		return canvas.RoundJoin
	case 2, 3:
		return canvas.MiterJoiner{GapJoiner: canvas.BevelJoin, Limit: d.Limit}
	case 4:
		return canvas.MiterJoiner{GapJoiner: canvas.RoundJoin, Limit: d.Limit} // no back-end expresses this: outline fallback
	case 5:
		return canvas.ArcsJoiner{GapJoiner: canvas.BevelJoin, Limit: d.Limit} // SVG 2 only
	default:
		return canvas.MiterClipJoin // clipped miters: no back-end expresses this
	}
}

func buildCanvas(c Case) *canvas.Canvas {
	cv := canvas.New(c.W, c.H)
	ctx := canvas.NewContext(cv)
	ctx.SetCoordSystem([]canvas.CoordSystem{canvas.CartesianI, canvas.CartesianII, canvas.CartesianIII, canvas.CartesianIV}[c.CS])
	for _, d := range c.Draws {
		ctx.SetView(view(d.View))
		if d.Kind == "image" {
			ctx.DrawImage(d.At[0], d.At[1], images[d.Img], canvas.DPMM(d.Res))
			continue
		}
		ctx.SetFill(canvas.Paint{})
		if d.Fill >= 0 {
			ctx.SetFillColor(palette[d.Fill])
		}
		ctx.SetStroke(canvas.Paint{})
		if d.Stroke >= 0 {
			ctx.SetStrokeColor(palette[d.Stroke])
		}
		ctx.SetStrokeWidth(strokeWidth(d))
		ctx.SetStrokeCapper(caps[d.Cap])
		ctx.SetStrokeJoiner(mkJoin(d))
		// the generated dash lengths are d.Dashes*d.Width millimetres; the library measures dashes in (effective) stroke widths
		dashes := make([]float64, len(d.Dashes))
		for i := range dashes {
			dashes[i] = d.Dashes[i] * d.Width / strokeWidth(d)
		}
		ctx.SetDashes(d.DashOff*d.Width/strokeWidth(d), dashes...)
		if d.EvenOdd {
			ctx.SetFillRule(canvas.EvenOdd)
		} else {
			ctx.SetFillRule(canvas.NonZero)
		}
		ctx.DrawPath(d.At[0], d.At[1], mkPath(d))
	}
	return cv
}

const dpmm = 4.0

func raster(cv *canvas.Canvas) *image.RGBA {
	return rasterAt(cv, dpmm)
}

func rasterAt(cv *canvas.Canvas, d float64) *image.RGBA {
	return rasterizer.Draw(cv, canvas.DPMM(d), canvas.LinearColorSpace{})
}

// toCanvas replays a display list on a fresh canvas; the library's rasterizer is then only the common measuring device for the reference and for what the back-end's output means.
//
// Strokes whose parameters and path were verified against the drawing program (verified: item index -> draw index) are stroked the way the rasterizer strokes the original (path, width and view as drawn): stroking the transformed path with the transformed width instead is the same stroke only up to the stroker's own tolerance and its behaviour at sharp corners, which is not what this property is about.
func toCanvas(doc *dl.Doc, c Case, verified map[int]int) (*canvas.Canvas, error) {
	cv := canvas.New(doc.W, doc.H)
	m := canvas.Identity
	if doc.YDown {
		m = canvas.Identity.ReflectYAbout(doc.H / 2)
	}
	for idx, it := range doc.Items {
		if it.Image != nil {
			im := it.Image
			img := image.NewNRGBA(image.Rect(0, 0, im.W, im.H))
			for i, p := range im.Pix {
				img.Pix[4*i+0] = uint8(math.Round(p.R * 255))
				img.Pix[4*i+1] = uint8(math.Round(p.G * 255))
				img.Pix[4*i+2] = uint8(math.Round(p.B * 255))
				img.Pix[4*i+3] = uint8(math.Round(p.A * 255))
			}
			// image space (v down from the top row) -> canvas image space (origin bottom-left, y up)
			mm := im.M.Mul(oracle.Translate(0, float64(im.H))).Mul(oracle.Scale(1, -1))
			cm := m.Mul(canvas.Matrix{{mm[0], mm[1], mm[2]}, {mm[3], mm[4], mm[5]}})
			cv.RenderImage(img, cm)
			continue
		}
		// with y downwards the coordinates are mirrored here, not by a reflecting view: the path handed to the stroker then has the orientation of the one the rasterizer stroked
		fy := func(y float64) float64 {
			if doc.YDown {
				return doc.H - y
			}
			return y
		}
		p := &canvas.Path{}
		for _, s := range it.Segs {
			a := s.Args
			switch s.Cmd {
			case oracle.MoveTo:
				p.MoveTo(a[0], fy(a[1]))
			case oracle.LineTo:
				p.LineTo(a[0], fy(a[1]))
			case oracle.QuadTo:
				p.QuadTo(a[0], fy(a[1]), a[2], fy(a[3]))
			case oracle.CubeTo:
				p.CubeTo(a[0], fy(a[1]), a[2], fy(a[3]), a[4], fy(a[5]))
			case oracle.ArcTo:
				large, sweep := oracle.ArcFlags(a[3])
				rot := a[2] * 180 / math.Pi
				if doc.YDown {
					sweep, rot = !sweep, -rot
				}
				p.ArcTo(a[0], a[1], rot, large, sweep, a[4], fy(a[5]))
			case oracle.Close:
				p.Close()
			}
		}
		style := canvas.Style{StrokeCapper: canvas.ButtCap, StrokeJoiner: canvas.BevelJoin}
		if it.Fill != nil {
			if it.Fill.Grad != nil {
				return nil, fmt.Errorf("gradient paint in a program without gradients")
			}
			style.Fill = canvas.Paint{Color: premul(it.Fill.Color)}
		}
		if it.EvenOdd {
			style.FillRule = canvas.EvenOdd
		}
		if di, ok := verified[idx]; ok && it.Stroke != nil {
			if it.Fill != nil {
				cv.RenderPath(p, style, canvas.Identity)
			}
			d := c.Draws[di]
			st := canvas.Style{Stroke: canvas.Paint{Color: premul(it.Stroke.Paint.Color)}, StrokeWidth: strokeWidth(d), StrokeCapper: caps[d.Cap], StrokeJoiner: mkJoin(d)}
			for _, x := range d.Dashes {
				st.Dashes = append(st.Dashes, x*d.Width/strokeWidth(d))
			}
			st.DashOffset = d.DashOff * d.Width / strokeWidth(d)
			cm := csMat(c)
			cv.RenderPath(mkPath(d), st, canvas.Matrix{{cm[0], cm[1], cm[2]}, {cm[3], cm[4], cm[5]}}.Mul(view(d.View)).Translate(d.At[0], d.At[1]))
			continue
		}
		if st := it.Stroke; st != nil {
			if st.Paint.Grad != nil {
				return nil, fmt.Errorf("gradient paint in a program without gradients")
			}
			style.Stroke = canvas.Paint{Color: premul(st.Paint.Color)}
			style.StrokeWidth = st.Width
			style.StrokeCapper = caps[st.Cap]
			switch st.Join {
			case dl.JoinMiter:
				style.StrokeJoiner = canvas.MiterJoiner{GapJoiner: canvas.BevelJoin, Limit: st.MiterLimit}
			case dl.JoinRound:
				style.StrokeJoiner = canvas.RoundJoin
			case dl.JoinBevel:
				style.StrokeJoiner = canvas.BevelJoin
			case dl.JoinArcs:
				style.StrokeJoiner = canvas.ArcsJoiner{GapJoiner: canvas.BevelJoin, Limit: st.MiterLimit}
			}
			// the library measures dashes in stroke widths
			for _, d := range st.Dashes {
				style.Dashes = append(style.Dashes, d/st.Width)
			}
			style.DashOffset = st.DashOffset / st.Width
		}
		cv.RenderPath(p, style, canvas.Identity)
	}
	return cv, nil
}

func premul(c dl.RGBA) color.RGBA {
	return color.RGBA{uint8(math.Round(c.R * c.A * 255)), uint8(math.Round(c.G * c.A * 255)), uint8(math.Round(c.B * c.A * 255)), uint8(math.Round(c.A * 255))}
}

// compare counts pixels whose colour differs by more than tol in any channel. The outermost ring of pixels is left out: the rasterizer folds geometry that overhangs the canvas onto its border rows and columns (finding F14b of C14), which says nothing about the back-ends.
// A band around the outline of every image is left out as well.
func compare(ref, got *image.RGBA, tol int, doc *dl.Doc) (bad int, worst int, at image.Point) {
	b := ref.Bounds()
	type edge struct {
		a, b oracle.Pt
		band float64
	}
	var edges []edge
	for _, it := range doc.Items {
		if im := it.Image; im != nil {
			// the rasterizer surrounds an image with a transparent margin whenever its matrix has any off-diagonal entry (even 1e-16 from a rotation by 180 degrees), which fades the border over one source pixel: the band left out is 1.5 pixels plus 0.75 source pixels wide
			srcPx := math.Sqrt(math.Abs(im.M.Det())) * dpmm
			var c [4]oracle.Pt
			for k, uv := range [][2]float64{{0, 0}, {float64(im.W), 0}, {float64(im.W), float64(im.H)}, {0, float64(im.H)}} {
				p := im.M.Apply(oracle.Pt{X: uv[0], Y: uv[1]})
				if !doc.YDown {
					p.Y = doc.H - p.Y
				}
				c[k] = p.Mul(dpmm)
			}
			for k := range c {
				edges = append(edges, edge{c[k], c[(k+1)%4], 1.5 + 0.75*srcPx})
			}
		}
	}
	for y := b.Min.Y + 1; y < b.Max.Y-1; y++ {
	pixels:
		for x := b.Min.X + 1; x < b.Max.X-1; x++ {
			for _, e := range edges {
				if oracle.DistSeg(oracle.Pt{X: float64(x) + 0.5, Y: float64(y) + 0.5}, e.a, e.b) < e.band {
					continue pixels
				}
			}
			i, j := ref.PixOffset(x, y), got.PixOffset(x, y)
			d := 0
			for k := 0; k < 4; k++ {
				e := int(ref.Pix[i+k]) - int(got.Pix[j+k])
				if e < 0 {
					e = -e
				}
				if e > d {
					d = e
				}
			}
			if d > tol {
				bad++
			}
			if d > worst {
				worst, at = d, image.Pt(x, y)
			}
		}
	}
	return
}

func describe(doc *dl.Doc) string {
	s := fmt.Sprintf("%d item(s):", len(doc.Items))
	for i, it := range doc.Items {
		if i >= 4 {
			s += " ..."
			break
		}
		switch {
		case it.Image != nil:
			s += fmt.Sprintf(" image %dx%d M=%.3g;", it.Image.W, it.Image.H, it.Image.M)
		default:
			s += fmt.Sprintf(" path(%d segs)", len(it.Segs))
			if it.Fill != nil {
				s += fmt.Sprintf(" fill=%.2g evenodd=%v", it.Fill.Color, it.EvenOdd)
			}
			if it.Stroke != nil {
				s += fmt.Sprintf(" stroke=%.2g w=%.4g cap=%d join=%d ml=%.3g dash=%.4g@%.4g", it.Stroke.Paint.Color, it.Stroke.Width, it.Stroke.Cap, it.Stroke.Join, it.Stroke.MiterLimit, it.Stroke.Dashes, it.Stroke.DashOffset)
			}
			s += ";"
		}
	}
	return s
}

func checkCase(c Case, r *vf.R) error {
	var cv *canvas.Canvas
	var ref *image.RGBA
	if err := vf.Try("building and rasterizing the canvas", func() { cv = buildCanvas(c); ref = raster(cv) }); err != nil {
		return err
	}
	opaque, fallback, hasImage, hasStroke, dashed := true, false, false, false, false
	for _, d := range c.Draws {
		if d.Kind == "image" {
			hasImage = true
			if d.Img == 2 {
				opaque = false
			}
			continue
		}
		if d.Fill >= nOpaque || (d.Stroke >= nOpaque) {
			opaque = false
		}
		if d.Stroke >= 0 {
			hasStroke = true
			if len(d.Dashes) > 0 {
				dashed = true
			}
			if !similarity(d.View) || d.Join >= 4 {
				fallback = true
			}
		}
	}
	r.ClassIf(fallback, "outline-fallback")
	r.ClassIf(c.CS != 0, "flipped-coordinate-system")
	r.ClassIf(hasImage, "image")
	r.ClassIf(dashed, "dashed")
	r.ClassIf(!opaque, "alpha")
	if hasStroke && len(c.Draws) >= 2 {
		r.NonTrivial()
	}
	npix := ref.Bounds().Dx() * ref.Bounds().Dy()
	limit := 8 + npix/800
	type backend struct {
		name string
		run  func() (*dl.Doc, error)
	}
	backends := []backend{
		{"SVG", func() (*dl.Doc, error) {
			var buf bytes.Buffer
			if err := vf.Try("SVG rendering", func() {
				w := svg.New(&buf, c.W, c.H, nil)
				cv.RenderTo(w)
				if err := w.Close(); err != nil {
					panic(err)
				}
			}); err != nil {
				return nil, err
			}
			doc, _, err := svgread.ReadDoc(buf.Bytes())
			if err != nil {
				return nil, vf.Errorf("the SVG output cannot be interpreted: %v", err)
			}
			return doc, nil
		}},
		{"PDF", func() (*dl.Doc, error) {
			var buf bytes.Buffer
			if err := vf.Try("PDF rendering", func() {
				w := pdf.New(&buf, c.W, c.H, &pdf.Options{Compress: false, SubsetFonts: true, ImageEncoding: canvas.Lossless})
				cv.RenderTo(w)
				if err := w.Close(); err != nil {
					panic(err)
				}
			}); err != nil {
				return nil, err
			}
			f, probs := pdfread.Parse(buf.Bytes())
			if len(probs) > 0 {
				return nil, vf.Errorf("the PDF output cannot be read: %v", probs[0])
			}
			pages, probs := f.Validate()
			if len(probs) > 0 || len(pages) != 1 {
				return nil, vf.Errorf("the PDF output cannot be read: %d page(s), %v", len(pages), probs)
			}
			doc, _, err := f.Interpret(pages[0])
			if err != nil {
				return nil, vf.Errorf("the PDF content stream cannot be interpreted: %v", err)
			}
			return doc, nil
		}},
	}
	if opaque {
		backends = append(backends, backend{"PS", func() (*dl.Doc, error) {
			var buf bytes.Buffer
			if err := vf.Try("PostScript rendering", func() {
				opts := &ps.Options{ImageEncoding: canvas.Lossless}
				if c.EPS {
					opts.Format = ps.EncapsulatedPostScript
				}
				w := ps.New(&buf, c.W, c.H, opts)
				cv.RenderTo(w)
				if err := w.Close(); err != nil {
					panic(err)
				}
			}); err != nil {
				return nil, err
			}
			doc, hdr, err := psread.Run(buf.Bytes())
			if err != nil {
				return nil, vf.Errorf("the PostScript output cannot be executed: %v", err)
			}
			if !hdr.HasBBox {
				return nil, vf.Errorf("the PostScript output has no %%%%BoundingBox")
			}
			return doc, nil
		}})
	} else {
		r.Class("PS-skipped:alpha")
	}
	for _, be := range backends {
		doc, err := be.run()
		if err != nil {
			return vf.Errorf("%s: %v", be.name, err)
		}
		if math.Abs(doc.W-c.W) > 1e-4*c.W || math.Abs(doc.H-c.H) > 1e-4*c.H {
			return vf.Errorf("%s: the document is %.6g x %.6g mm, the canvas is %g x %g mm", be.name, doc.W, doc.H, c.W, c.H)
		}
		verified, serr := compareStructure(c, be.name, doc)
		if serr != nil {
			return vf.Errorf("%s: %v", be.name, serr)
		}
		var got *image.RGBA
		var cerr error
		if err := vf.Try("replaying the "+be.name+" display list", func() {
			var c2 *canvas.Canvas
			c2, cerr = toCanvas(doc, c, verified)
			if cerr == nil {
				got = raster(c2)
			}
		}); err != nil {
			return err
		}
		if cerr != nil {
			return vf.Errorf("%s: %v", be.name, cerr)
		}
		if got.Bounds() != ref.Bounds() {
			return vf.Errorf("%s: raster size %v differs from the reference %v", be.name, got.Bounds(), ref.Bounds())
		}
		if dir := os.Getenv("VERIF_DUMP"); dir != "" {
			dumpPNG(dir+"/ref.png", ref)
			dumpPNG(dir+"/"+be.name+".png", got)
		}
		bad, worst, at := compare(ref, got, 64, doc)
		vf.Max("pixels-differing-"+be.name, float64(bad), "largest number of pixels differing by more than 64/255 in an accepted case")
		if bad > limit {
			x, y := (float64(at.X)+0.5)/dpmm, c.H-(float64(at.Y)+0.5)/dpmm
			return vf.Errorf("%s: %d of %d pixels differ from the rasterizer's rendering by more than 64/255 (allowed %d); worst %d/255 at (%.2f,%.2f) mm: rasterizer %v, %s %v; %s", be.name, bad, npix, limit, worst, x, y, ref.RGBAAt(at.X, at.Y), be.name, got.RGBAAt(at.X, at.Y), describe(doc))
		}
	}
	return nil
}

func TestProgram(t *testing.T) {
	vf.Run(t, vf.Prop[Case]{Sub: "program", Gen: genCase, Check: checkCase, Cases: vf.N(400, 5000)})
}

func dumpPNG(name string, img *image.RGBA) {
	// magnified on white for viewing
	const k = 4
	b := img.Bounds()
	out := image.NewRGBA(image.Rect(0, 0, b.Dx()*k, b.Dy()*k))
	for y := 0; y < b.Dy()*k; y++ {
		for x := 0; x < b.Dx()*k; x++ {
			c := img.RGBAAt(x/k, y/k)
			a := 255 - int(c.A)
			out.SetRGBA(x, y, color.RGBA{uint8(int(c.R) + a), uint8(int(c.G) + a), uint8(int(c.B) + a), 255})
		}
	}
	f, err := os.Create(name)
	if err != nil {
		return
	}
	defer f.Close()
	png.Encode(f, out)
}
