package c12

import (
	"bytes"
	"image"
	"image/color"
	"math"
	"testing"

	"github.com/tdewolff/canvas"
	"github.com/tdewolff/canvas/renderers/pdf"
	"github.com/tdewolff/canvas/renderers/svg"
	"pgregory.net/rapid"

	"verif/harness/dl"
	"verif/harness/pdfread"
	"verif/harness/svgread"
	"verif/harness/vf"
)

// Gradient paints: the colour the rasterizer gives every pixel inside a filled rectangle against an independent evaluation of the gradient (axial: projection on the axis; radial: the two-circle construction shared by SVG 2, PDF type 3 shadings and the HTML canvas), and the gradient the SVG and PDF output define against the one that was set. PostScript output has no gradients (the renderer does not claim them) and is not compared.

type GStop struct {
	Off float64 `json:"off"`
	Col int     `json:"col"`
}

type GCase struct {
	W      float64   `json:"w"`
	H      float64   `json:"h"`
	Radial bool      `json:"radial"`
	Geom   []float64 `json:"geom"`
	Stops  []GStop   `json:"stops"`
	Rect   []float64 `json:"rect"` // x, y, w, h
	DPMM   float64   `json:"dpmm"`
	Stroke bool      `json:"stroke"` // paint a thick stroke with the gradient instead of a fill
}

func genG(t *rapid.T) GCase {
	c := GCase{W: float64(rapid.IntRange(4, 16).Draw(t, "w")) * 5, H: float64(rapid.IntRange(4, 16).Draw(t, "h")) * 5}
	c.Radial = rapid.Bool().Draw(t, "radial")
	if c.Radial {
		cx, cy := q(t, "cx", 0, int(c.W)), q(t, "cy", 0, int(c.H))
		r1 := float64(rapid.IntRange(8, 60).Draw(t, "r1"))
		// the focal circle lies strictly inside the end circle
		ang := float64(rapid.IntRange(0, 11).Draw(t, "ang")) * 30 * math.Pi / 180
		dist := r1 * float64(rapid.IntRange(0, 5).Draw(t, "dist")) / 10
		r0 := (r1 - dist) * float64(rapid.IntRange(0, 4).Draw(t, "r0")) / 10
		c.Geom = []float64{cx + dist*math.Cos(ang), cy + dist*math.Sin(ang), r0, cx, cy, r1}
	} else {
		x0, y0 := q(t, "x0", 0, int(c.W)), q(t, "y0", 0, int(c.H))
		dx, dy := q(t, "dx", -40, 40), q(t, "dy", -40, 40)
		if math.Hypot(dx, dy) < 4 {
			dx += 6
		}
		c.Geom = []float64{x0, y0, x0 + dx, y0 + dy}
	}
	n := rapid.IntRange(2, 4).Draw(t, "nstops")
	off := 0.0
	if rapid.IntRange(0, 2).Draw(t, "off0") == 0 {
		off = 0.125
	}
	for i := 0; i < n; i++ {
		c.Stops = append(c.Stops, GStop{off, rapid.IntRange(0, nOpaque-1).Draw(t, "col")})
		off += float64(rapid.IntRange(1, 3).Draw(t, "doff")) / 8
		if i == n-2 && rapid.IntRange(0, 2).Draw(t, "off1") != 0 {
			off = math.Max(off, 1)
		}
		off = math.Min(off, 1)
	}
	c.Rect = []float64{q(t, "rx", 0, int(c.W/2)), q(t, "ry", 0, int(c.H/2)), float64(rapid.IntRange(8, int(c.W)).Draw(t, "rw")), float64(rapid.IntRange(8, int(c.H)).Draw(t, "rh"))}
	c.DPMM = []float64{1, 2, 3.5}[rapid.IntRange(0, 2).Draw(t, "dpmm")]
	c.Stroke = rapid.IntRange(0, 3).Draw(t, "stroke") == 0
	return c
}

func (c GCase) gradient() canvas.Gradient {
	var stops canvas.Stops
	for _, s := range c.Stops {
		stops.Add(s.Off, palette[s.Col])
	}
	if c.Radial {
		g := canvas.NewRadialGradient(canvas.Point{X: c.Geom[0], Y: c.Geom[1]}, c.Geom[2], canvas.Point{X: c.Geom[3], Y: c.Geom[4]}, c.Geom[5])
		g.Stops = stops
		return g
	}
	g := canvas.NewLinearGradient(canvas.Point{X: c.Geom[0], Y: c.Geom[1]}, canvas.Point{X: c.Geom[2], Y: c.Geom[3]})
	g.Stops = stops
	return g
}

// param is the gradient parameter of a point in canvas coordinates (NaN where the radial gradient is not defined).
func param(radial bool, g []float64, x, y float64) float64 {
	if !radial {
		dx, dy := g[2]-g[0], g[3]-g[1]
		return ((x-g[0])*dx + (y-g[1])*dy) / (dx*dx + dy*dy)
	}
	// largest t with |p - (c0 + t (c1-c0))| = r0 + t (r1-r0) and a non-negative radius
	cdx, cdy, dr := g[3]-g[0], g[4]-g[1], g[5]-g[2]
	px, py := x-g[0], y-g[1]
	a := cdx*cdx + cdy*cdy - dr*dr
	b := px*cdx + py*cdy + g[2]*dr
	cc := px*px + py*py - g[2]*g[2]
	if math.Abs(a) < 1e-12 {
		if b == 0 {
			return math.NaN()
		}
		return cc / (2 * b)
	}
	disc := b*b - a*cc
	if disc < 0 {
		return math.NaN()
	}
	t1, t2 := (b+math.Sqrt(disc))/a, (b-math.Sqrt(disc))/a
	if t1 < t2 {
		t1, t2 = t2, t1
	}
	if g[2]+t1*dr >= 0 {
		return t1
	}
	if g[2]+t2*dr >= 0 {
		return t2
	}
	return math.NaN()
}

// colorAt interpolates stops (straight RGB, opaque) at t with the end colours extended.
func colorAt(stops []dl.Stop, t float64) dl.RGBA {
	if t <= stops[0].Off {
		return stops[0].C
	}
	for i := 1; i < len(stops); i++ {
		if t < stops[i].Off {
			a, b := stops[i-1], stops[i]
			f := (t - a.Off) / (b.Off - a.Off)
			return dl.RGBA{R: a.C.R + f*(b.C.R-a.C.R), G: a.C.G + f*(b.C.G-a.C.G), B: a.C.B + f*(b.C.B-a.C.B), A: a.C.A + f*(b.C.A-a.C.A)}
		}
	}
	return stops[len(stops)-1].C
}

func (c GCase) stops() []dl.Stop {
	var out []dl.Stop
	for _, s := range c.Stops {
		p := palette[s.Col]
		out = append(out, dl.Stop{Off: s.Off, C: dl.RGBA{R: float64(p.R) / 255, G: float64(p.G) / 255, B: float64(p.B) / 255, A: 1}})
	}
	return out
}

func checkG(c GCase, r *vf.R) error {
	cv := canvas.New(c.W, c.H)
	ctx := canvas.NewContext(cv)
	rect := canvas.Rectangle(c.Rect[2], c.Rect[3])
	if c.Stroke {
		ctx.SetFill(canvas.Paint{})
		ctx.SetStrokeGradient(c.gradient())
		ctx.SetStrokeWidth(6)
		ctx.SetStrokeJoiner(canvas.BevelJoin)
	} else {
		ctx.SetFillGradient(c.gradient())
	}
	ctx.DrawPath(c.Rect[0], c.Rect[1], rect)
	r.ClassIf(c.Radial, "radial")
	r.ClassIf(c.Stroke, "stroke-paint")
	r.ClassIf(len(c.Stops) > 2, "three-or-more-stops")
	if len(c.Stops) > 2 || c.Stops[0].Off > 0 || c.Stops[len(c.Stops)-1].Off < 1 {
		r.NonTrivial()
	}
	want := c.stops()
	// 1. the rasterizer's pixels
	var img *image.RGBA
	if err := vf.Try("rasterizing", func() { img = rasterDPMM(cv, c.DPMM) }); err != nil {
		return err
	}
	inside := func(x, y float64) bool {
		x0, y0, x1, y1 := c.Rect[0], c.Rect[1], c.Rect[0]+c.Rect[2], c.Rect[1]+c.Rect[3]
		m := 1.0 / c.DPMM
		if c.Stroke {
			// well inside the 6 mm wide stroke of the rectangle's outline: within 2 mm of the outline, away from the corners' outer side
			d := math.Min(math.Min(math.Abs(x-x0), math.Abs(x-x1)), math.Min(math.Abs(y-y0), math.Abs(y-y1)))
			return d < 2 && x > x0-2 && x < x1+2 && y > y0-2 && y < y1+2 && (x > x0 && x < x1 || y > y0 && y < y1)
		}
		return x > x0+m && x < x1-m && y > y0+m && y < y1-m
	}
	b := img.Bounds()
	checked := 0
	for py := 1; py < b.Dy()-1; py++ {
		for px := 1; px < b.Dx()-1; px++ {
			// canvas y = 0 is the bottom edge of the image (whose height in pixels is rounded up)
			x, y := (float64(px)+0.5)/c.DPMM, (float64(b.Dy())-float64(py)-0.5)/c.DPMM
			if !inside(x, y) {
				continue
			}
			t := param(c.Radial, c.Geom, x, y)
			if math.IsNaN(t) {
				continue
			}
			// the colour may change quickly: accept the colours of the parameter range the pixel covers
			h := 0.75 / c.DPMM
			lo, hi := t, t
			for _, dxy := range [][2]float64{{-h, -h}, {h, -h}, {-h, h}, {h, h}} {
				tt := param(c.Radial, c.Geom, x+dxy[0], y+dxy[1])
				if math.IsNaN(tt) {
					lo, hi = math.Inf(-1), math.Inf(1)
					break
				}
				lo, hi = math.Min(lo, tt), math.Max(hi, tt)
			}
			got := img.RGBAAt(px, py)
			ok := false
			for k := 0; k <= 8 && !ok; k++ {
				w := colorAt(want, lo+(hi-lo)*float64(k)/8)
				if math.Abs(w.R*255-float64(got.R)) <= 6 && math.Abs(w.G*255-float64(got.G)) <= 6 && math.Abs(w.B*255-float64(got.B)) <= 6 && got.A >= 250 {
					ok = true
				}
			}
			// between two samples of a steep ramp the colour lies between their colours
			if !ok {
				a, bb := colorAt(want, lo), colorAt(want, hi)
				between := func(v uint8, p, q float64) bool {
					return float64(v) >= math.Min(p, q)*255-6 && float64(v) <= math.Max(p, q)*255+6
				}
				monotone := true
				for _, s := range want {
					if s.Off > lo && s.Off < hi {
						monotone = false // a stop inside the range: the colour need not be between the end colours
					}
				}
				if monotone && between(got.R, a.R, bb.R) && between(got.G, a.G, bb.G) && between(got.B, a.B, bb.B) && got.A >= 250 {
					ok = true
				}
				if !monotone {
					ok = true
					r.Class("pixel-spans-a-stop")
				}
			}
			if !ok {
				w := colorAt(want, t)
				return vf.Errorf("rasterizer at %g px/mm: pixel (%d,%d), canvas point (%.3f,%.3f) mm, gradient parameter %.4f: colour %v, the gradient there is (%.0f %.0f %.0f)", c.DPMM, px, py, x, y, t, got, w.R*255, w.G*255, w.B*255)
			}
			checked++
		}
	}
	vf.Max("gradient-pixels-checked", float64(checked), "largest number of pixels compared with the gradient formula in one case")
	// 2. the gradients the vector formats define
	for _, name := range []string{"SVG", "PDF"} {
		var doc *dl.Doc
		var buf bytes.Buffer
		var err error
		if name == "SVG" {
			if perr := vf.Try("SVG rendering", func() { w := svg.New(&buf, c.W, c.H, nil); cv.RenderTo(w); w.Close() }); perr != nil {
				return perr
			}
			doc, _, err = svgread.ReadDoc(buf.Bytes())
		} else {
			if perr := vf.Try("PDF rendering", func() {
				w := pdf.New(&buf, c.W, c.H, &pdf.Options{Compress: false})
				cv.RenderTo(w)
				w.Close()
			}); perr != nil {
				return perr
			}
			f, probs := pdfread.Parse(buf.Bytes())
			if len(probs) > 0 {
				return vf.Errorf("PDF: %v", probs[0])
			}
			pages, probs := f.Validate()
			if len(probs) > 0 || len(pages) != 1 {
				return vf.Errorf("PDF: %v", probs)
			}
			doc, _, err = f.Interpret(pages[0])
		}
		if err != nil {
			return vf.Errorf("%s: the output cannot be interpreted: %v", name, err)
		}
		if len(doc.Items) != 1 {
			return vf.Errorf("%s: %d painted items, expected 1", name, len(doc.Items))
		}
		var p *dl.Paint
		if c.Stroke {
			if doc.Items[0].Stroke == nil {
				return vf.Errorf("%s: the item has no stroke", name)
			}
			p = &doc.Items[0].Stroke.Paint
		} else {
			p = doc.Items[0].Fill
		}
		if p == nil || p.Grad == nil {
			return vf.Errorf("%s: the paint is not a gradient", name)
		}
		g := p.Grad
		if p.Color.A < 0.999 {
			return vf.Errorf("%s: the gradient is painted with alpha %.3f", name, p.Color.A)
		}
		if g.Radial != c.Radial {
			return vf.Errorf("%s: radial=%v, expected %v", name, g.Radial, c.Radial)
		}
		fy := func(y float64) float64 {
			if doc.YDown {
				return doc.H - y
			}
			return y
		}
		var got []float64
		if c.Radial {
			got = []float64{g.X0, fy(g.Y0), g.R0, g.X1, fy(g.Y1), g.R1}
		} else {
			got = []float64{g.X0, fy(g.Y0), g.X1, fy(g.Y1)}
		}
		for i := range got {
			if math.Abs(got[i]-c.Geom[i]) > 1e-5*(1+math.Abs(c.Geom[i])) {
				return vf.Errorf("%s: gradient geometry %.7g, expected %.7g", name, got, c.Geom)
			}
		}
		if len(g.Stops) == 0 {
			return vf.Errorf("%s: gradient without stops", name)
		}
		for k := -4; k <= 36; k++ {
			t := float64(k)/32 + 1e-4
			a, b := colorAt(g.Stops, t), colorAt(want, t)
			if math.Abs(a.R-b.R) > 0.01 || math.Abs(a.G-b.G) > 0.01 || math.Abs(a.B-b.B) > 0.01 || math.Abs(a.A-b.A) > 0.01 {
				return vf.Errorf("%s: at parameter %.4f the gradient is %.3f, expected %.3f (stops in the output %.3f)", name, t, a, b, g.Stops)
			}
		}
	}
	return nil
}

func rasterDPMM(cv *canvas.Canvas, d float64) *image.RGBA {
	return rasterAt(cv, d)
}

var _ = color.RGBA{}

func TestGradient(t *testing.T) {
	vf.Run(t, vf.Prop[GCase]{Sub: "gradient", Gen: genG, Check: checkG, Cases: vf.N(300, 4000)})
}
