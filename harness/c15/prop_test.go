package c15

import (
	"fmt"
	"image"
	"image/color"
	"math"
	"sort"
	"testing"

	"github.com/tdewolff/canvas"
	"pgregory.net/rapid"

	"verif/harness/gen"
	"verif/harness/oracle"
	"verif/harness/rec"
	"verif/harness/vf"
)

func TestMain(m *testing.M) { vf.Main(m, "C15") }

type Op struct {
	Name string    `json:"op"`
	A    []float64 `json:"a,omitempty"`
}

type Case struct {
	W, H float64 `json:"-"`
	Size [2]float64 `json:"size"`
	Ops  []Op    `json:"ops"`
	Post []Op    `json:"post"` // canvas-level: Transform, Clip, Fit, and the final view of RenderViewTo
}

var colors = []color.RGBA{{255, 0, 0, 255}, {0, 255, 0, 255}, {0, 0, 255, 255}, {0, 0, 0, 255}, {128, 64, 32, 128}, {0, 0, 0, 0}}

func f(t *rapid.T, label string, lo, hi int) float64 {
	return float64(gen.Uniform(t, label, lo*4, hi*4)) / 4
}

func genCase(t *rapid.T) Case {
	c := Case{Size: [2]float64{f(t, "w", 20, 200), f(t, "h", 20, 200)}}
	n := rapid.IntRange(3, vf.N(40, 80)).Draw(t, "nops")
	depth := 0
	for i := 0; i < n; i++ {
		k := rapid.IntRange(0, 33).Draw(t, "kind")
		switch {
		case k == 0:
			c.Ops = append(c.Ops, Op{"SetFillColor", []float64{float64(rapid.IntRange(0, 5).Draw(t, "col"))}})
		case k == 1:
			c.Ops = append(c.Ops, Op{"SetStrokeColor", []float64{float64(rapid.IntRange(0, 5).Draw(t, "col"))}})
		case k == 2:
			c.Ops = append(c.Ops, Op{"SetStrokeWidth", []float64{f(t, "sw", 0, 5)}})
		case k == 3:
			c.Ops = append(c.Ops, Op{"SetStrokeCapper", []float64{float64(rapid.IntRange(0, 2).Draw(t, "cap"))}})
		case k == 4:
			c.Ops = append(c.Ops, Op{"SetStrokeJoiner", []float64{float64(rapid.IntRange(0, 3).Draw(t, "join"))}})
		case k == 5:
			c.Ops = append(c.Ops, Op{"SetFillRule", []float64{float64(rapid.IntRange(0, 3).Draw(t, "rule"))}})
		case k == 6:
			c.Ops = append(c.Ops, Op{"ResetStyle", nil})
		case k == 7:
			c.Ops = append(c.Ops, Op{"Translate", []float64{f(t, "tx", -30, 30), f(t, "ty", -30, 30)}})
		case k == 8:
			c.Ops = append(c.Ops, Op{"Rotate", []float64{f(t, "rot", -180, 180)}})
		case k == 9:
			c.Ops = append(c.Ops, Op{"Scale", []float64{f(t, "sx", 1, 3) / 2, f(t, "sy", 1, 3) / 2}})
		case k == 10:
			c.Ops = append(c.Ops, Op{"Shear", []float64{f(t, "shx", -1, 1), f(t, "shy", -1, 1) / 2}})
		case k == 11:
			c.Ops = append(c.Ops, Op{"ReflectX", nil})
		case k == 12:
			c.Ops = append(c.Ops, Op{"ReflectY", nil})
		case k == 13:
			c.Ops = append(c.Ops, Op{"ReflectXAbout", []float64{f(t, "ax", -20, 20)}})
		case k == 14:
			c.Ops = append(c.Ops, Op{"ReflectYAbout", []float64{f(t, "ay", -20, 20)}})
		case k == 15:
			c.Ops = append(c.Ops, Op{"RotateAbout", []float64{f(t, "rot", -180, 180), f(t, "ax", -20, 20), f(t, "ay", -20, 20)}})
		case k == 16:
			c.Ops = append(c.Ops, Op{"ScaleAbout", []float64{f(t, "sx", 1, 3) / 2, f(t, "sy", 1, 3) / 2, f(t, "ax", -20, 20), f(t, "ay", -20, 20)}})
		case k == 17:
			c.Ops = append(c.Ops, Op{"ShearAbout", []float64{f(t, "shx", -1, 1), f(t, "shy", -1, 1) / 2, f(t, "ax", -20, 20), f(t, "ay", -20, 20)}})
		case k == 18:
			m := gen.Matrix(t, false)
			c.Ops = append(c.Ops, Op{"ComposeView", m[:]})
		case k == 19:
			m := gen.Matrix(t, false)
			c.Ops = append(c.Ops, Op{"SetView", m[:]})
		case k == 20:
			c.Ops = append(c.Ops, Op{"ResetView", nil})
		case k == 21:
			m := gen.Matrix(t, false)
			c.Ops = append(c.Ops, Op{"SetCoordView", m[:]})
		case k == 22:
			c.Ops = append(c.Ops, Op{"SetCoordRect", []float64{f(t, "rx0", -10, 10), f(t, "ry0", -10, 10), f(t, "rw", 1, 50), f(t, "rh", 1, 50), f(t, "cw", 1, 100), f(t, "ch", 1, 100)}})
		case k == 23:
			c.Ops = append(c.Ops, Op{"SetCoordSystem", []float64{float64(rapid.IntRange(0, 3).Draw(t, "cs"))}})
		case k == 24 || k == 25:
			c.Ops = append(c.Ops, Op{"Push", nil})
			depth++
		case k == 26 || k == 27:
			c.Ops = append(c.Ops, Op{"Pop", nil}) // also when the stack is empty
			if depth > 0 {
				depth--
			}
		case k == 28:
			c.Ops = append(c.Ops, Op{"SetZIndex", []float64{float64(rapid.IntRange(-2, 3).Draw(t, "z"))}})
		case k == 29:
			// the image's bounds need not start at the origin (a SubImage)
			c.Ops = append(c.Ops, Op{"DrawImage", []float64{f(t, "x", -20, 60), f(t, "y", -20, 60), float64(rapid.IntRange(1, 6).Draw(t, "iw")), float64(rapid.IntRange(1, 6).Draw(t, "ih")), f(t, "res", 1, 8), float64(rapid.IntRange(0, 2).Draw(t, "iox") * 3), float64(rapid.IntRange(0, 2).Draw(t, "ioy") * 2)}})
		case k == 30:
			// build a path through the context and paint it
			c.Ops = append(c.Ops, Op{"Build", []float64{f(t, "bx", -10, 50), f(t, "by", -10, 50), f(t, "bw", 1, 20), f(t, "bh", 1, 20), float64(rapid.IntRange(0, 2).Draw(t, "paint"))}})
		case k == 31:
			// two or four entries (a shorter pattern after a longer one may reuse its storage), sometimes none
			a := []float64{f(t, "off", -3, 3), f(t, "d0", 1, 4), f(t, "d1", 1, 4)}
			switch rapid.IntRange(0, 3).Draw(t, "dashlen") {
			case 0:
				a = append(a, f(t, "d2", 1, 4), f(t, "d3", 1, 4))
			case 1:
				a = a[:1]
			}
			c.Ops = append(c.Ops, Op{"SetDashes", a})
		default:
			c.Ops = append(c.Ops, Op{"DrawPath", []float64{f(t, "x", -20, 60), f(t, "y", -20, 60), f(t, "pw", 1, 20), f(t, "ph", 1, 20), float64(rapid.IntRange(0, 4).Draw(t, "shape"))}})
		}
	}
	c.Ops = append(c.Ops, Op{"DrawPath", []float64{f(t, "x", -20, 60), f(t, "y", -20, 60), f(t, "pw", 1, 20), f(t, "ph", 1, 20), 0}})
	switch rapid.IntRange(0, 4).Draw(t, "post") {
	case 0:
		m := gen.Matrix(t, false)
		c.Post = append(c.Post, Op{"Transform", m[:]})
	case 1:
		c.Post = append(c.Post, Op{"Clip", []float64{f(t, "cx0", -10, 10), f(t, "cy0", -10, 10), f(t, "cw", 5, 80), f(t, "ch", 5, 80)}})
	case 2:
		c.Post = append(c.Post, Op{"Fit", []float64{f(t, "margin", 0, 5)}})
	}
	if rapid.Bool().Draw(t, "renderview") {
		m := gen.Matrix(t, false)
		c.Post = append(c.Post, Op{"RenderViewTo", m[:]})
	}
	return c
}

// samePattern compares two dash patterns as periodic on/off functions of the position along the path.
func samePattern(a []float64, aoff float64, b []float64, boff float64) bool {
	state := func(d []float64, off, t float64) bool {
		if len(d)%2 == 1 {
			d = append(append([]float64(nil), d...), d...)
		}
		total := 0.0
		for _, x := range d {
			total += x
		}
		if total <= 0 {
			return true
		}
		x := math.Mod(t+off, total)
		if x < 0 {
			x += total
		}
		for i, v := range d {
			if x < v {
				return i%2 == 0
			}
			x -= v
		}
		return true
	}
	ta := 0.0
	for _, x := range a {
		ta += x
	}
	mismatch := 0
	const n = 1500
	for k := 0; k < n; k++ {
		t := 3 * ta * (float64(k) + 0.5) / n
		if state(a, aoff, t) != state(b, boff, t) {
			mismatch++
		}
	}
	return mismatch <= 3*(len(a)+len(b))
}

func shapeOf(a []float64) *canvas.Path {
	switch int(a[4]) {
	case 0:
		return canvas.Rectangle(a[2], a[3])
	case 1:
		return canvas.Ellipse(a[2]/2, a[3]/2)
	case 3: // a horizontal line: its bounds have no height
		p := &canvas.Path{}
		p.MoveTo(0, 0)
		p.LineTo(a[2], 0)
		return p
	case 4: // a vertical line
		p := &canvas.Path{}
		p.MoveTo(0, 0)
		p.LineTo(0, a[3])
		return p
	default:
		p := &canvas.Path{}
		p.MoveTo(0, 0)
		p.LineTo(a[2], 0)
		p.QuadTo(a[2], a[3], 0, a[3])
		return p
	}
}

// ---- model ----

type mstyle struct {
	fill, stroke color.RGBA
	width        float64
	cap, join    int
	rule         int
	dashes       []float64
	dashOffset   float64
}

type mstate struct {
	style     mstyle
	view      oracle.Mat
	coordView oracle.Mat
	cs        int
}

type expected struct {
	kind   string
	z, seq int
	m      oracle.Mat
	style  mstyle
	data   []float64
	img    [2]int
}

func mat(a []float64) oracle.Mat { return oracle.Mat{a[0], a[1], a[2], a[3], a[4], a[5]} }
func cmat(a []float64) canvas.Matrix {
	return canvas.Matrix{{a[0], a[1], a[2]}, {a[3], a[4], a[5]}}
}
func about(e oracle.Mat, x, y float64) oracle.Mat {
	return oracle.Translate(x, y).Mul(e).Mul(oracle.Translate(-x, -y))
}

func defaultStyle() mstyle {
	return mstyle{fill: color.RGBA{0, 0, 0, 255}, stroke: color.RGBA{}, width: 1, cap: 0, join: 0, rule: 0}
}

func csView(cs int, W, H float64) oracle.Mat {
	switch cs {
	case 1: // II: origin bottom-right, x to the left
		return oracle.Mat{-1, 0, W, 0, 1, 0}
	case 2: // III: origin top-right
		return oracle.Mat{-1, 0, W, 0, -1, H}
	case 3: // IV: origin top-left, y down
		return oracle.Mat{1, 0, 0, 0, -1, H}
	}
	return oracle.Identity()
}

var cappers = []canvas.Capper{canvas.ButtCap, canvas.RoundCap, canvas.SquareCap}
var joiners = []canvas.Joiner{canvas.MiterJoin, canvas.BevelJoin, canvas.RoundJoin, canvas.ArcsJoin}
var frules = []canvas.FillRule{canvas.NonZero, canvas.EvenOdd, canvas.Positive, canvas.Negative}

func matEq(got canvas.Matrix, want oracle.Mat) bool {
	g := gen.FromCanvas(got)
	scale := 1.0
	for _, v := range want {
		scale = math.Max(scale, math.Abs(v))
	}
	for i := range g {
		if math.Abs(g[i]-want[i]) > 1e-8*scale {
			return false
		}
	}
	return true
}

func checkCase(c Case, r *vf.R) error {
	W, H := c.Size[0], c.Size[1]
	cv := canvas.New(W, H)
	ctx := canvas.NewContext(cv)
	st := mstate{style: defaultStyle(), view: oracle.Identity(), coordView: oracle.Identity()}
	var stack []mstate
	var exp []expected
	z := 0
	popAfterSetter, drewAfterPop := false, false
	setterSincePush := false
	for step, o := range c.Ops {
		a := o.A
		err := vf.Try(o.Name, func() {
			switch o.Name {
			case "SetFillColor":
				ctx.SetFillColor(colors[int(a[0])])
				st.style.fill = colors[int(a[0])]
			case "SetStrokeColor":
				ctx.SetStrokeColor(colors[int(a[0])])
				st.style.stroke = colors[int(a[0])]
			case "SetStrokeWidth":
				ctx.SetStrokeWidth(a[0])
				st.style.width = a[0]
			case "SetStrokeCapper":
				ctx.SetStrokeCapper(cappers[int(a[0])])
				st.style.cap = int(a[0])
			case "SetStrokeJoiner":
				ctx.SetStrokeJoiner(joiners[int(a[0])])
				st.style.join = int(a[0])
			case "SetFillRule":
				ctx.SetFillRule(frules[int(a[0])])
				st.style.rule = int(a[0])
			case "SetDashes":
				ctx.SetDashes(a[0], a[1:]...)
				st.style.dashOffset, st.style.dashes = a[0], append([]float64(nil), a[1:]...)
			case "ResetStyle":
				ctx.ResetStyle()
				st.style = defaultStyle()
			case "Translate":
				ctx.Translate(a[0], a[1])
				st.view = st.view.Mul(oracle.Translate(a[0], a[1]))
			case "Rotate":
				ctx.Rotate(a[0])
				st.view = st.view.Mul(oracle.Rotate(a[0]))
			case "Scale":
				ctx.Scale(a[0], a[1])
				st.view = st.view.Mul(oracle.Scale(a[0], a[1]))
			case "Shear":
				ctx.Shear(a[0], a[1])
				st.view = st.view.Mul(oracle.Shear(a[0], a[1]))
			case "ReflectX":
				ctx.ReflectX()
				st.view = st.view.Mul(oracle.Scale(-1, 1))
			case "ReflectY":
				ctx.ReflectY()
				st.view = st.view.Mul(oracle.Scale(1, -1))
			case "ReflectXAbout":
				ctx.ReflectXAbout(a[0])
				st.view = st.view.Mul(about(oracle.Scale(-1, 1), a[0], 0))
			case "ReflectYAbout":
				ctx.ReflectYAbout(a[0])
				st.view = st.view.Mul(about(oracle.Scale(1, -1), 0, a[0]))
			case "RotateAbout":
				ctx.RotateAbout(a[0], a[1], a[2])
				st.view = st.view.Mul(about(oracle.Rotate(a[0]), a[1], a[2]))
			case "ScaleAbout":
				ctx.ScaleAbout(a[0], a[1], a[2], a[3])
				st.view = st.view.Mul(about(oracle.Scale(a[0], a[1]), a[2], a[3]))
			case "ShearAbout":
				ctx.ShearAbout(a[0], a[1], a[2], a[3])
				st.view = st.view.Mul(about(oracle.Shear(a[0], a[1]), a[2], a[3]))
			case "ComposeView":
				ctx.ComposeView(cmat(a))
				st.view = st.view.Mul(mat(a))
			case "SetView":
				ctx.SetView(cmat(a))
				st.view = mat(a)
			case "ResetView":
				ctx.ResetView()
				st.view = oracle.Identity()
			case "SetCoordView":
				ctx.SetCoordView(cmat(a))
				st.coordView = mat(a)
			case "SetCoordRect":
				ctx.SetCoordRect(canvas.Rect{X0: a[0], Y0: a[1], X1: a[0] + a[2], Y1: a[1] + a[3]}, a[4], a[5])
				// maps (0,0)-(width,height) onto the rectangle
				st.coordView = oracle.Translate(a[0], a[1]).Mul(oracle.Scale(a[2]/a[4], a[3]/a[5]))
			case "SetCoordSystem":
				ctx.SetCoordSystem(canvas.CoordSystem(int(a[0])))
				st.cs = int(a[0])
			case "Push":
				ctx.Push()
				cp := st
				cp.style.dashes = append([]float64(nil), st.style.dashes...)
				stack = append(stack, cp)
				setterSincePush = false
			case "Pop":
				ctx.Pop()
				if len(stack) > 0 {
					st = stack[len(stack)-1]
					stack = stack[:len(stack)-1]
					if setterSincePush {
						popAfterSetter = true
					}
				}
			case "SetZIndex":
				ctx.SetZIndex(int(a[0]))
				z = int(a[0])
			case "DrawPath", "Build":
				var p *canvas.Path
				x, y := a[0], a[1]
				style := st.style
				if o.Name == "DrawPath" {
					p = shapeOf(a)
					ctx.DrawPath(x, y, p)
				} else {
					ctx.MoveTo(a[0], a[1])
					ctx.LineTo(a[0]+a[2], a[1])
					ctx.LineTo(a[0]+a[2], a[1]+a[3])
					ctx.Close()
					p = &canvas.Path{}
					p.MoveTo(a[0], a[1])
					p.LineTo(a[0]+a[2], a[1])
					p.LineTo(a[0]+a[2], a[1]+a[3])
					p.Close()
					x, y = 0, 0
					switch int(a[4]) {
					case 0:
						ctx.Fill()
						style.stroke = color.RGBA{}
					case 1:
						ctx.Stroke()
						style.fill = color.RGBA{}
					default:
						ctx.FillStroke()
					}
				}
				hasFill := style.fill.A != 0
				hasStroke := style.stroke.A != 0 && style.width > 0
				if hasFill || hasStroke {
					pt := st.coordView.Apply(oracle.Pt{X: x, Y: y})
					m := csView(st.cs, W, H).Mul(st.view).Mul(oracle.Translate(pt.X, pt.Y))
					exp = append(exp, expected{kind: "path", z: z, seq: len(exp), m: m, style: style, data: append([]float64(nil), p.Data()...)})
				}
				if o.Name == "DrawPath" && math.Mod(math.Floor(a[2]*4), 2) == 0 {
					// the caller goes on building its path after the draw: the recorded operation keeps the geometry it
					// had when it was drawn (seed C15-7: the canvas kept the caller's pointer)
					p.LineTo(a[2]+3, a[3]+5)
					p.Close()
				}
				if hasFill || hasStroke {
					if popAfterSetter {
						drewAfterPop = true
					}
				}
			case "DrawImage":
				ox, oy := 0, 0
				if len(a) >= 7 {
					ox, oy = int(a[5]), int(a[6])
				}
				img := image.NewRGBA(image.Rect(ox, oy, ox+int(a[2]), oy+int(a[3])))
				ctx.DrawImage(a[0], a[1], img, canvas.DPMM(a[4]))
				pt := st.coordView.Apply(oracle.Pt{X: a[0], Y: a[1]})
				m := csView(st.cs, W, H).Mul(st.view).Mul(oracle.Translate(pt.X, pt.Y)).Mul(oracle.Scale(1/a[4], 1/a[4]))
				// images keep their upright orientation in flipped systems: mirror about the image's own centre
				if st.cs == 2 || st.cs == 3 {
					m = m.Mul(about(oracle.Scale(1, -1), 0, a[3]/2))
				}
				if st.cs == 1 || st.cs == 2 {
					m = m.Mul(about(oracle.Scale(-1, 1), a[2]/2, 0))
				}
				exp = append(exp, expected{kind: "image", z: z, seq: len(exp), m: m, img: [2]int{int(a[2]), int(a[3])}})
			}
		})
		if err != nil {
			return vf.Errorf("step %d: %v", step, err)
		}
		switch o.Name {
		case "Push", "Pop", "DrawPath", "Build", "DrawImage", "SetZIndex":
		default:
			setterSincePush = true
		}
		// observable state after every step
		if !matEq(ctx.View(), st.view) {
			return vf.Errorf("after step %d (%s%v): View() = %v, model %v", step, o.Name, a, ctx.View(), st.view)
		}
		if !matEq(ctx.CoordView(), st.coordView) {
			return vf.Errorf("after step %d (%s%v): CoordView() = %v, model %v", step, o.Name, a, ctx.CoordView(), st.coordView)
		}
		if !matEq(ctx.CoordSystemView(), csView(st.cs, W, H)) {
			return vf.Errorf("after step %d (%s%v): CoordSystemView() = %v, model %v", step, o.Name, a, ctx.CoordSystemView(), csView(st.cs, W, H))
		}
	}
	if drewAfterPop {
		r.NonTrivial()
	}
	// canvas level operations
	post := oracle.Identity()
	view := oracle.Identity()
	cview := canvas.Identity
	fitMargin := -1.0
	for _, o := range c.Post {
		a := o.A
		err := vf.Try(o.Name, func() {
			switch o.Name {
			case "Transform":
				cv.Transform(cmat(a))
				post = mat(a).Mul(post)
			case "Clip":
				cv.Clip(canvas.Rect{X0: a[0], Y0: a[1], X1: a[0] + a[2], Y1: a[1] + a[3]})
				post = oracle.Translate(-a[0], -a[1]).Mul(post)
				if cv.W != a[2] || cv.H != a[3] {
					panic(fmt.Sprintf("Clip: canvas size %vx%v, want %vx%v", cv.W, cv.H, a[2], a[3]))
				}
			case "Fit":
				cv.Fit(a[0])
				fitMargin = a[0]
			case "RenderViewTo":
				view = mat(a)
				cview = cmat(a)
			}
		})
		if err != nil {
			return vf.Errorf("%s%v: %v", o.Name, a, err)
		}
		r.Class("post:" + o.Name)
	}
	rr := rec.New(cv.W, cv.H)
	if err := vf.Try("RenderViewTo", func() { cv.RenderViewTo(rr, cview) }); err != nil {
		return err
	}
	// expected order: ascending z-index, then drawing order
	sort.SliceStable(exp, func(i, j int) bool { return exp[i].z < exp[j].z })
	if len(rr.Calls) != len(exp) {
		return vf.Errorf("renderer received %d calls, %d draws were recorded", len(rr.Calls), len(exp))
	}
	var fitShift *oracle.Mat
	for i, e := range exp {
		call := rr.Calls[i]
		if call.Kind != e.kind {
			return vf.Errorf("call %d is a %s, expected the %s drawn as number %d (z-index %d): wrong replay order", i, call.Kind, e.kind, e.seq, e.z)
		}
		want := view.Mul(post).Mul(e.m)
		if fitMargin >= 0 {
			// Fit translates everything by one common offset: determine it from the first call and require it for all
			g := gen.FromCanvas(call.M)
			if fitShift == nil {
				sh := oracle.Translate(0, 0)
				// shift s with view*T(s)*e.m == got  =>  compare linear parts, solve translation in the un-viewed frame
				inv := view.Inv()
				got := inv.Mul(oracle.Mat(g))
				sh[2], sh[5] = got[2]-e.m[2], got[5]-e.m[5]
				fitShift = &sh
			}
			want = view.Mul(*fitShift).Mul(e.m)
		}
		if !matEq(call.M, want) {
			return vf.Errorf("call %d (%s drawn as number %d, z-index %d): matrix %v, expected %v = [RenderViewTo view] x [canvas transform] x CoordSystemView x View x Translate(CoordView(x,y))", i, e.kind, e.seq, e.z, call.M, want)
		}
		if e.kind == "path" {
			if len(call.Data) != len(e.data) {
				return vf.Errorf("call %d: path %v, drawn %v (order of replay or path changed)", i, call.Path, canvas.NewPathFromData(e.data))
			}
			for k := range e.data {
				if call.Data[k] != e.data[k] {
					return vf.Errorf("call %d: path %v, drawn %v", i, call.Path, canvas.NewPathFromData(e.data))
				}
			}
			s := call.Style
			ms := e.style
			fillC := color.RGBA{}
			if s.HasFill() {
				fillC = s.Fill.Color
			}
			if fillC != ms.fill && !(ms.fill.A == 0 && !s.HasFill()) {
				return vf.Errorf("call %d: fill %v, model %v", i, fillC, ms.fill)
			}
			hasStroke := ms.stroke.A != 0 && ms.width > 0
			if len(ms.dashes) > 0 && hasStroke && !s.HasStroke() {
				// the first space of the dash pattern may cover the whole path (C05 decides whether rightly so)
				hasStroke = false
			}
			if s.HasStroke() != hasStroke {
				return vf.Errorf("call %d: HasStroke=%v, model %v (stroke %v width %v)", i, s.HasStroke(), hasStroke, ms.stroke, ms.width)
			}
			if hasStroke {
				if s.Stroke.Color != ms.stroke || s.StrokeWidth != ms.width {
					return vf.Errorf("call %d: stroke %v width %v, model %v width %v", i, s.Stroke.Color, s.StrokeWidth, ms.stroke, ms.width)
				}
				if fmt.Sprint(s.StrokeCapper) != fmt.Sprint(cappers[ms.cap]) || fmt.Sprint(s.StrokeJoiner) != fmt.Sprint(joiners[ms.join]) {
					return vf.Errorf("call %d: capper/joiner %v/%v, model %v/%v", i, s.StrokeCapper, s.StrokeJoiner, cappers[ms.cap], joiners[ms.join])
				}
				if (len(ms.dashes) == 0) != (len(call.Dashes) == 0) {
					// a dash pattern may be dropped when the first dash covers the whole path (see C05); only
					// patterns appearing out of nowhere are wrong here
					if len(ms.dashes) == 0 {
						return vf.Errorf("call %d: dashes %v although none were set", i, call.Dashes)
					}
				} else if len(ms.dashes) > 0 {
					// the pattern may be given in another canonical form (rotated, with another offset) but must be the same on/off function
					if !samePattern(ms.dashes, ms.dashOffset, call.Dashes, s.DashOffset) {
						return vf.Errorf("call %d: dash pattern %v offset %v, the model has %v offset %v (after Push/Pop the pattern set before must be back)", i, call.Dashes, s.DashOffset, ms.dashes, ms.dashOffset)
					}
				}
			}
			if s.FillRule != frules[ms.rule] {
				return vf.Errorf("call %d: fill rule %v, model %v", i, s.FillRule, frules[ms.rule])
			}
		}
	}
	// Fit: all content within the canvas with the margin
	if fitMargin >= 0 && len(rr.Calls) > 0 {
		b := oracle.EmptyBox()
		for i, call := range rr.Calls {
			e := exp[i]
			m := oracle.Mat(gen.FromCanvas(call.M))
			m = view.Inv().Mul(m) // back to canvas coordinates
			var pts []oracle.Pt
			hw := 0.0
			if e.kind == "path" {
				segs, err := oracle.Decode(e.data)
				if err != nil {
					return vf.Errorf("recorded path not decodable")
				}
				for _, pl := range oracle.Sample(segs, 64) {
					pts = append(pts, pl.P...)
				}
				// (the style the library handed to the renderer decides: a stroke is dropped when the first gap of the
				// dash pattern covers the whole path)
				if call.Style.HasStroke() {
					hw = e.style.width / 2
				} else {
					// a path that is only filled and has no extent in one direction paints nothing: not content
					pb := oracle.EmptyBox()
					for _, q := range pts {
						pb = pb.Extend(q)
					}
					if pb.X1-pb.X0 == 0 || pb.Y1-pb.Y0 == 0 {
						continue
					}
				}
			} else {
				pts = []oracle.Pt{{X: 0, Y: 0}, {X: float64(e.img[0]), Y: 0}, {X: float64(e.img[0]), Y: float64(e.img[1])}, {X: 0, Y: float64(e.img[1])}}
			}
			for _, p := range pts {
				q := m.Apply(p)
				b = b.Extend(q)
				_ = hw
			}
		}
		tol := 1e-6 * (1 + cv.W + cv.H)
		if b.X0 < fitMargin-tol || b.Y0 < fitMargin-tol || b.X1 > cv.W-fitMargin+tol || b.Y1 > cv.H-fitMargin+tol {
			return vf.Errorf("after Fit(%v) the canvas is %vx%v but content spans (%v,%v)-(%v,%v)", fitMargin, cv.W, cv.H, b.X0, b.Y0, b.X1, b.Y1)
		}
	}
	return nil
}

func TestContext(t *testing.T) {
	vf.Run(t, vf.Prop[Case]{Sub: "context", Gen: genCase, Check: checkCase, Cases: vf.N(20000, 150000)})
}
