// Package replay draws a display list (what an independent interpreter read from a document) on a fresh canvas, so that the library's rasterizer can serve as a common measuring device, and compares two rasters.
package replay

import (
	"fmt"
	"image"
	"image/color"
	"math"

	"github.com/tdewolff/canvas"
	"github.com/tdewolff/canvas/renderers/rasterizer"

	"verif/harness/dl"
	"verif/harness/oracle"
)

var caps = []canvas.Capper{canvas.ButtCap, canvas.RoundCap, canvas.SquareCap}

func premul(c dl.RGBA) color.RGBA {
	return color.RGBA{uint8(math.Round(c.R * c.A * 255)), uint8(math.Round(c.G * c.A * 255)), uint8(math.Round(c.B * c.A * 255)), uint8(math.Round(c.A * 255))}
}

func style(it dl.Item) canvas.Style {
	style := canvas.Style{StrokeCapper: canvas.ButtCap, StrokeJoiner: canvas.BevelJoin}
	if it.Fill != nil {
		style.Fill = canvas.Paint{Color: premul(it.Fill.Color)}
	}
	if it.EvenOdd {
		style.FillRule = canvas.EvenOdd
	}
	if st := it.Stroke; st != nil {
		style.Stroke = canvas.Paint{Color: premul(st.Paint.Color)}
		style.StrokeWidth = st.Width
		style.StrokeCapper = caps[st.Cap]
		switch st.Join {
		case dl.JoinMiter:
			style.StrokeJoiner = canvas.MiterJoiner{GapJoiner: canvas.BevelJoin, Limit: st.MiterLimit}
		case dl.JoinRound:
			style.StrokeJoiner = canvas.RoundJoin
		case dl.JoinBevel:
			style.StrokeJoiner = canvas.BevelJoin
		case dl.JoinArcs:
			style.StrokeJoiner = canvas.ArcsJoiner{GapJoiner: canvas.BevelJoin, Limit: st.MiterLimit}
		}
		// the library measures dashes in stroke widths
		for _, d := range st.Dashes {
			style.Dashes = append(style.Dashes, d/st.Width)
		}
		style.DashOffset = st.DashOffset / st.Width
	}
	return style
}

// ToCanvas replays the items; coordinates of y-down documents are mirrored here (not by a reflecting view).
func ToCanvas(doc *dl.Doc) (*canvas.Canvas, error) {
	cv := canvas.New(doc.W, doc.H)
	fy := func(y float64) float64 {
		if doc.YDown {
			return doc.H - y
		}
		return y
	}
	for _, it := range doc.Items {
		if it.Image != nil {
			return nil, fmt.Errorf("images are not replayed here")
		}
		if it.M != nil {
			// own coordinate system: build the path as it is and let the view do the mapping (including the mirroring)
			p := &canvas.Path{}
			for _, s := range it.Segs {
				a := s.Args
				switch s.Cmd {
				case oracle.MoveTo:
					p.MoveTo(a[0], a[1])
				case oracle.LineTo:
					p.LineTo(a[0], a[1])
				case oracle.QuadTo:
					p.QuadTo(a[0], a[1], a[2], a[3])
				case oracle.CubeTo:
					p.CubeTo(a[0], a[1], a[2], a[3], a[4], a[5])
				case oracle.ArcTo:
					large, sweep := oracle.ArcFlags(a[3])
					p.ArcTo(a[0], a[1], a[2]*180/math.Pi, large, sweep, a[4], a[5])
				case oracle.Close:
					p.Close()
				}
			}
			m := canvas.Matrix{{it.M[0], it.M[1], it.M[2]}, {it.M[3], it.M[4], it.M[5]}}
			if doc.YDown {
				m = canvas.Identity.ReflectYAbout(doc.H / 2).Mul(m)
			}
			cv.RenderPath(p, style(it), m)
			continue
		}
		p := &canvas.Path{}
		for _, s := range it.Segs {
			a := s.Args
			switch s.Cmd {
			case oracle.MoveTo:
				p.MoveTo(a[0], fy(a[1]))
			case oracle.LineTo:
				p.LineTo(a[0], fy(a[1]))
			case oracle.QuadTo:
				p.QuadTo(a[0], fy(a[1]), a[2], fy(a[3]))
			case oracle.CubeTo:
				p.CubeTo(a[0], fy(a[1]), a[2], fy(a[3]), a[4], fy(a[5]))
			case oracle.ArcTo:
				large, sweep := oracle.ArcFlags(a[3])
				rot := a[2] * 180 / math.Pi
				if doc.YDown {
					sweep, rot = !sweep, -rot
				}
				p.ArcTo(a[0], a[1], rot, large, sweep, a[4], fy(a[5]))
			case oracle.Close:
				p.Close()
			}
		}
		if it.Fill != nil && it.Fill.Grad != nil {
			return nil, fmt.Errorf("gradient paints are not replayed here")
		}
		cv.RenderPath(p, style(it), canvas.Identity)
	}
	return cv, nil
}

func Raster(cv *canvas.Canvas, dpmm float64) *image.RGBA {
	return rasterizer.Draw(cv, canvas.DPMM(dpmm), canvas.LinearColorSpace{})
}

// Compare counts the pixels whose colour differs by more than tol in any channel; the two outermost rings are left out (the rasterizer folds overhanging geometry onto its border rows and columns, finding F14b).
func Compare(ref, got *image.RGBA, tol int) (bad, worst int, at image.Point) {
	b := ref.Bounds()
	for y := b.Min.Y + 2; y < b.Max.Y-2; y++ {
		for x := b.Min.X + 2; x < b.Max.X-2; x++ {
			i, j := ref.PixOffset(x, y), got.PixOffset(x, y)
			d := 0
			for k := 0; k < 4; k++ {
				e := int(ref.Pix[i+k]) - int(got.Pix[j+k])
				if e < 0 {
					e = -e
				}
				if e > d {
					d = e
				}
			}
			if d > tol {
				bad++
			}
			if d > worst {
				worst, at = d, image.Pt(x, y)
			}
		}
	}
	return
}
