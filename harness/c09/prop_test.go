package c09

import (
	"fmt"
	"math"
	"sort"
	"testing"

	"github.com/tdewolff/canvas"
	"pgregory.net/rapid"

	"verif/harness/gen"
	"verif/harness/oracle"
	"verif/harness/vf"
)

func TestMain(m *testing.M) { vf.Main(m, "C09") }

const nLen = 2000

func trueLength(segs []oracle.Seg) float64 {
	l := 0.0
	for _, s := range segs {
		l += oracle.SegLength(s, nLen)
	}
	return l
}

func genPath(t *rapid.T, maxSub int) gen.PathSpec {
	o := gen.DefaultOpts()
	o.Lo, o.Hi = -20, 20
	o.MaxSub = maxSub
	o.MaxSeg = 4
	switch rapid.IntRange(0, 3).Draw(t, "kind") {
	case 0:
		o.MaxSub, o.MaxSeg = 1, 1 // single segment: per-segment statement
		o.Ops = "QCA"
	case 1:
		o.Ops = "QCA"
	}
	return gen.Path(t, o)
}

// ---------------- Length ----------------

type LCase struct {
	Path gen.PathSpec `json:"path"`
}

func eccentricArc(segs []oracle.Seg) bool {
	for _, s := range segs {
		if eccSeg(s) {
			return true
		}
	}
	return false
}

// eccSeg: long arcs of eccentric ellipses, and needle ellipses at any sweep
func eccSeg(s oracle.Seg) bool {
	if s.Cmd != oracle.ArcTo {
		return false
	}
	rx, ry := s.Args[0], s.Args[1]
	ratio := math.Min(rx, ry) / math.Max(rx, ry)
	return ratio < 0.5 && math.Abs(s.ArcOf().Dth) > math.Pi/2 || ratio < 0.15
}

// hasCusp reports whether a Bézier segment of the path comes near a cusp: minimal speed below 20 % of the maximal.
// Measured over 300 000 random quadratic and cubic Béziers on the generator's lattice (worst cut error of SplitAt at
// nine positions relative to the segment's length, worst relative error of Length), by min/max speed:
// [0,.05) 7.2 % / 5.7 %, [.05,.1) 4.1 % / 3.1 %, [.1,.15) 2.9 % / 2.3 %, [.15,.2) 1.9 % / 1.5 %, [.2,.25) 1.2 % / 1.0 %,
// [.25,.3) 0.8 % / 0.5 %, above 0.3 below 0.5 % / 0.3 %.
func hasCusp(segs []oracle.Seg) bool {
	for _, s := range segs {
		if cuspSeg(s) {
			return true
		}
	}
	return false
}

func cuspSeg(s oracle.Seg) bool {
	if s.Cmd != oracle.QuadTo && s.Cmd != oracle.CubeTo {
		return false
	}
	mn, mx := math.Inf(1), 0.0
	prev := s.Eval(0)
	for i := 1; i <= 400; i++ {
		q := s.Eval(float64(i) / 400)
		v := q.Dist(prev)
		mn, mx = math.Min(mn, v), math.Max(mx, v)
		prev = q
	}
	return mn < 0.2*mx
}

func checkLength(c LCase, r *vf.R) error {
	p := c.Path.Build()
	if p.Empty() {
		return nil
	}
	segs, err := oracle.Decode(p.Data())
	if err != nil {
		return vf.Errorf("not decodable: %v", err)
	}
	want := trueLength(segs)
	var got float64
	if err := vf.Try("Length", func() { got = p.Length() }); err != nil {
		return err
	}
	curved := false
	for _, s := range segs {
		if s.Curved() {
			curved = true
		}
	}
	if curved {
		r.NonTrivial()
	}
	if want == 0 {
		if got != 0 {
			return vf.Errorf("Length %v of an empty/zero-length path", got)
		}
		return nil
	}
	if math.IsNaN(got) || math.IsInf(got, 0) {
		return vf.Errorf("Length = %v, true arc length %v", got, want)
	}
	size := 0.0
	cusp := false
	for _, s := range segs {
		if s.Cmd != oracle.MoveTo {
			size = math.Max(size, oracle.SegBounds(s, 16).Size())
		}
		if s.Cmd == oracle.QuadTo || s.Cmd == oracle.CubeTo {
			// speed ratio: a (near) cusp makes the integrand non-smooth
			mn, mx := math.Inf(1), 0.0
			prev := s.Eval(0)
			for i := 1; i <= 400; i++ {
				q := s.Eval(float64(i) / 400)
				v := q.Dist(prev)
				mn, mx = math.Min(mn, v), math.Max(mx, v)
				prev = q
			}
			if mn < 0.2*mx {
				cusp = true
			}
		}
	}
	if size < 1e-4 {
		r.Class("sub-resolution(skipped)")
		return nil
	}
	rel := math.Abs(got-want) / want
	if r.ClassIf(cusp, "bezier-with-cusp") {
		// known finding F09c: Gauss-Legendre quadrature over a (near) cusp: a few percent
		vf.Max("length rel err (cusps)", rel, c.Path.String())
		if rel > 0.025 && r.Excluded("F09c", true) {
			if rel > 0.10 {
				return vf.Errorf("Length = %v, true arc length %v (relative error %.3f, weak bound 0.10 for cusps)", got, want, rel)
			}
			return nil
		}
	}
	ecc := eccentricArc(segs)
	if r.ClassIf(ecc, "eccentric-arc>90deg") {
		vf.Max("length rel err (eccentric arcs)", rel, c.Path.String())
	} else {
		vf.Max("length rel err", rel, c.Path.String())
	}
	if rel > 0.025 {
		if r.Excluded("F09b", ecc) {
			// known finding: 5-point Gauss-Legendre over the whole arc; weak bound still enforced
			if rel > 0.15 {
				return vf.Errorf("Length = %v, true arc length %v (relative error %.3f, weak bound 0.15 for eccentric arcs)", got, want, rel)
			}
			return nil
		}
		return vf.Errorf("Length = %v, true arc length %v (relative error %.4f > 0.025)", got, want, rel)
	}
	return nil
}

func TestLength(t *testing.T) {
	vf.Run(t, vf.Prop[LCase]{Sub: "length", Gen: func(t *rapid.T) LCase { return LCase{genPath(t, 3)} }, Check: checkLength, Cases: vf.N(2500, 40000)})
}

// ---------------- SplitAt ----------------

type SCase struct {
	Path gen.PathSpec `json:"path"`
	Fr   []float64    `json:"fractions"` // cut positions as fractions of Length()
}

func genSplit(t *rapid.T) SCase {
	c := SCase{Path: genPath(t, 2)}
	n := rapid.IntRange(1, 5).Draw(t, "ncuts")
	seen := map[int]bool{}
	for i := 0; i < n; i++ {
		k := gen.Uniform(t, "fr", 0, 1000)
		if !seen[k] { // duplicate positions give empty pieces; not part of the statement
			seen[k] = true
			c.Fr = append(c.Fr, float64(k)/1000)
		}
	}
	return c
}

func checkSplit(c SCase, r *vf.R) error {
	p := c.Path.Build()
	if p.Empty() {
		return nil
	}
	data := append([]float64(nil), p.Data()...)
	segs, err := oracle.Decode(data)
	if err != nil {
		return vf.Errorf("not decodable: %v", err)
	}
	L := p.Length()
	if !(L > 1e-4) {
		return nil
	}
	ts := make([]float64, len(c.Fr))
	for i, f := range c.Fr {
		ts[i] = f * L
	}
	arg := append([]float64(nil), ts...)
	var pieces []*canvas.Path
	if err := vf.Try("SplitAt", func() { pieces = p.SplitAt(arg...) }); err != nil {
		return err
	}
	for i := range arg {
		if arg[i] != ts[i] {
			return vf.Errorf("SplitAt modified its argument slice: %v -> %v", ts, arg)
		}
	}
	for i, v := range p.Data() {
		if v != data[i] {
			return vf.Errorf("SplitAt modified its receiver at index %d", i)
		}
	}

	// known finding F09b: the inverse arc-length of eccentric arcs (10 Chebyshev nodes) is a few percent off;
	// the weak bound of 8 % of the arc is still enforced
	segTol := 0.015
	checkPositions := true
	if eccentricArc(segs) && r.Excluded("F09b", true) {
		checkPositions = false // pieces must still lie on the path, cover it and add up to its length
	}
	skipLsum := false
	if hasCusp(segs) && r.Excluded("F09c", true) {
		// arc-length inversion and Length over a (near) cusp are off by a few percent: the pieces must still lie on
		// the path, follow each other, cover it and add up to its true length
		checkPositions = false
		skipLsum = true
	}
	// expected cuts: distinct positions strictly inside (0, L)
	sorted := append([]float64(nil), ts...)
	sort.Float64s(sorted)
	var cuts []float64
	for _, v := range sorted {
		if v > 1e-9*L && v < L*(1-1e-9) && (len(cuts) == 0 || v-cuts[len(cuts)-1] > 1e-9*L) {
			cuts = append(cuts, v)
		}
	}
	truelen := make([]float64, len(segs))
	total := 0.0
	for i, s := range segs {
		truelen[i] = oracle.SegLength(s, nLen)
		total += truelen[i]
	}
	size := 1e-9
	for _, s := range segs {
		size = math.Max(size, oracle.SegBounds(s, 16).Size())
	}
	// near-coincident cuts or cuts at segment joints may legitimately merge: compare counts loosely, geometry strictly
	// a requested position within the position tolerance of an end may be realised as a cut just inside the path: the upper bound counts every distinct requested position
	maxPieces := 1
	for i, v := range sorted {
		if i == 0 || v-sorted[i-1] > 1e-9*L {
			maxPieces++
		}
	}
	if len(pieces) < 1 || len(pieces) > maxPieces {
		return vf.Errorf("SplitAt(%v) of a path of length %v returned %d pieces, expected at most %d", ts, L, len(pieces), len(cuts)+1)
	}
	var all []oracle.Seg
	pieceLen := make([]float64, len(pieces))
	var prevEnd *oracle.Pt
	for k, pc := range pieces {
		ps, err := oracle.Decode(pc.Data())
		if err != nil {
			return vf.Errorf("piece %d not decodable: %v", k, err)
		}
		if len(ps) == 0 {
			return vf.Errorf("piece %d is empty", k)
		}
		for _, s := range ps {
			pieceLen[k] += oracle.SegLength(s, nLen)
			if s.Cmd != oracle.MoveTo {
				const M = 24
				for m := 0; m <= M; m++ {
					if d := oracle.PathDist(segs, s.Eval(float64(m)/M), 256); d > 1e-6*size {
						return vf.Errorf("piece %d leaves the original path by %g (size %g)", k, d, size)
					}
				}
			}
		}
		st := ps[0].End()
		if prevEnd != nil && prevEnd.Dist(st) > 1e-9*size && !subpathBoundary(segs, *prevEnd, st, 1e-9*size) {
			return vf.Errorf("piece %d starts at %v but piece %d ended at %v", k, st, k-1, *prevEnd)
		}
		e := ps[len(ps)-1].End()
		prevEnd = &e
		all = append(all, ps...)
	}
	// coverage: every point of the original lies on some piece
	for i, s := range segs {
		if s.Cmd == oracle.MoveTo {
			continue
		}
		const M = 24
		for m := 0; m <= M; m++ {
			if d := oracle.PathDist(all, s.Eval(float64(m)/M), 256); d > 1e-6*size {
				return vf.Errorf("point t=%.3f of original segment %d is %g away from all pieces", float64(m)/M, i, d)
			}
		}
	}
	sum := 0.0
	for _, l := range pieceLen {
		sum += l
	}
	if math.Abs(sum-total) > 1e-5*total+1e-9 {
		return vf.Errorf("true lengths of the pieces sum to %v, the path's true length is %v", sum, total)
	}
	// the library's own Length of the pieces sums to Length() (about one percent)
	lsum := 0.0
	for _, pc := range pieces {
		lsum += pc.Length()
	}
	if math.Abs(lsum-L) > 0.02*L && !skipLsum {
		return vf.Errorf("Length() of the pieces sums to %v, Length() of the path is %v", lsum, L)
	}
	// cut positions: cumulative true length at the end of piece k vs requested position
	// with a segment of a finding class in the path, the cuts before the first such segment are still checked
	// (against the requested arc length itself: Length() of the whole path is not reliable then)
	firstHard := math.Inf(1)
	if !checkPositions {
		acc := 0.0
		for i, s := range segs {
			if eccSeg(s) || cuspSeg(s) {
				firstHard = acc
				break
			}
			acc += truelen[i]
		}
	}
	if len(pieces) == len(cuts)+1 {
		cum := 0.0
		for k := 0; k < len(cuts); k++ {
			cum += pieceLen[k]
			// containing segment (by true cumulative length)
			// requested position is measured in the library's own length: scale to the true length
			want := cuts[k] / L * total
			if !checkPositions {
				want = cuts[k]
				if want > firstHard-0.05*want-1e-6*size {
					break
				}
				r.Class("strict-cut-before-first-hard-segment")
			}
			acc, seglen, cutCurved := 0.0, 0.0, false
			for i := range segs {
				if truelen[i] > 0 && want <= acc+truelen[i]+1e-9 {
					seglen = truelen[i]
					cutCurved = segs[i].Curved() && want > acc+1e-6*size && want < acc+truelen[i]-1e-6*size
					break
				}
				acc += truelen[i]
			}
			if cutCurved {
				r.NonTrivial()
			}
			tol := segTol*seglen + 0.01*want + 1e-6*size
			vf.Max("splitat cut position error / length", math.Abs(cum-want)/total, fmt.Sprintf("%s cuts=%v", c.Path, cuts))
			if math.Abs(cum-want) > tol {
				return vf.Errorf("cut %d requested at arc length %v (of %v) lies at true arc length %v of %v (tolerance %g)", k, cuts[k], L, cum, total, tol)
			}
		}
	} else {
		r.Class("merged-cuts")
	}
	return nil
}

// subpathBoundary reports whether a is the end of a subpath of segs and b the start of the next one: a cut that
// falls on the end of a subpath leaves the following piece to start with the next subpath.
func subpathBoundary(segs []oracle.Seg, a, b oracle.Pt, tol float64) bool {
	for i := 1; i < len(segs); i++ {
		if segs[i].Cmd == oracle.MoveTo && segs[i-1].End().Dist(a) <= tol && segs[i].End().Dist(b) <= tol {
			return true
		}
	}
	return false
}

func TestSplitAt(t *testing.T) {
	vf.Run(t, vf.Prop[SCase]{Sub: "splitat", Gen: genSplit, Check: checkSplit, Cases: vf.N(1200, 20000)})
}

// ---------------- Reverse ----------------

type RCase struct {
	Path gen.PathSpec `json:"path"`
	Q    [][2]float64 `json:"points"`
}

func genRev(t *rapid.T) RCase {
	c := RCase{Path: genPath(t, 3)}
	for i := 0; i < 6; i++ {
		c.Q = append(c.Q, [2]float64{gen.SmoothCoord(t, "qx", -20, 20), gen.SmoothCoord(t, "qy", -20, 20)})
	}
	return c
}

type sub struct {
	segs   []oracle.Seg
	closed bool
}

func splitSubs(segs []oracle.Seg) []sub {
	var out []sub
	for _, s := range segs {
		if s.Cmd == oracle.MoveTo || len(out) == 0 {
			out = append(out, sub{})
		}
		o := &out[len(out)-1]
		o.segs = append(o.segs, s)
		if s.Cmd == oracle.Close {
			o.closed = true
		}
	}
	return out
}

func checkReverse(c RCase, r *vf.R) error {
	p := c.Path.Build()
	if p.Empty() {
		return nil
	}
	data := append([]float64(nil), p.Data()...)
	in, err := oracle.Decode(data)
	if err != nil {
		return vf.Errorf("not decodable: %v", err)
	}
	var q, qq *canvas.Path
	if err := vf.Try("Reverse", func() { q = p.Reverse(); qq = q.Reverse() }); err != nil {
		return err
	}
	for i, v := range p.Data() {
		if v != data[i] {
			return vf.Errorf("Reverse modified its receiver at index %d", i)
		}
	}
	out, err := oracle.Decode(q.Data())
	if err != nil {
		return vf.Errorf("Reverse output not decodable: %v", err)
	}
	size := 1e-9
	for _, s := range in {
		size = math.Max(size, oracle.SegBounds(s, 16).Size())
	}
	// involution
	d2 := qq.Data()
	if len(d2) != len(data) {
		return vf.Errorf("Reverse().Reverse() has %d values, original %d: %v vs %v", len(d2), len(data), qq, p)
	}
	for i := range data {
		if math.Abs(d2[i]-data[i]) > 1e-12*(1+math.Abs(data[i])) {
			return vf.Errorf("Reverse().Reverse() differs from the original at index %d: %v vs %v", i, qq, p)
		}
	}
	ins, outs := splitSubs(in), splitSubs(out)
	if len(ins) != len(outs) {
		return vf.Errorf("Reverse changed the number of subpaths: %d -> %d", len(ins), len(outs))
	}
	hasCloseAfterCurve := false
	for k := range ins {
		a, b := ins[k], outs[len(outs)-1-k]
		if a.closed != b.closed {
			return vf.Errorf("subpath %d: closed=%v became closed=%v", k, a.closed, b.closed)
		}
		// every Close returns to the subpath start
		for _, s := range b.segs {
			if s.Cmd == oracle.Close && s.End().Dist(b.segs[0].End()) > 1e-12*size {
				return vf.Errorf("reversed subpath %d: Close goes to %v, subpath starts at %v", k, s.End(), b.segs[0].End())
			}
		}
		if a.closed && len(a.segs) >= 3 && a.segs[len(a.segs)-2].Curved() {
			hasCloseAfterCurve = true
		}
		// same point set, opposite direction: sample the input forward and the output backward by arc length fraction
		la, lb := 0.0, 0.0
		for _, s := range a.segs {
			la += oracle.SegLength(s, 400)
		}
		for _, s := range b.segs {
			lb += oracle.SegLength(s, 400)
		}
		if math.Abs(la-lb) > 1e-9*(1+la) {
			return vf.Errorf("subpath %d: true length %v became %v", k, la, lb)
		}
		// walk: drawn (non-MoveTo, non-zero-length) segments must correspond in reverse order with reversed parametrisation
		var da, db []oracle.Seg
		for _, s := range a.segs {
			if s.Cmd != oracle.MoveTo && (s.Curved() || s.P0.Dist(s.End()) > 1e-12*size) {
				da = append(da, s)
			}
		}
		for _, s := range b.segs {
			if s.Cmd != oracle.MoveTo && (s.Curved() || s.P0.Dist(s.End()) > 1e-12*size) {
				db = append(db, s)
			}
		}
		if len(da) != len(db) {
			return vf.Errorf("subpath %d: %d drawn segments became %d", k, len(da), len(db))
		}
		for i := range da {
			s, t := da[i], db[len(db)-1-i]
			for m := 0; m <= 8; m++ {
				u := float64(m) / 8
				if d := s.Eval(u).Dist(t.Eval(1 - u)); d > 1e-9*size {
					return vf.Errorf("subpath %d segment %d: point at t=%.3f is %v, reversed path has %v at 1-t", k, i, u, s.Eval(u), t.Eval(1-u))
				}
			}
		}
	}
	if hasCloseAfterCurve || len(ins) > 1 {
		r.NonTrivial()
	}
	// bounds preserved
	b1, b2 := p.Bounds(), q.Bounds()
	if math.Abs(b1.X0-b2.X0)+math.Abs(b1.Y0-b2.Y0)+math.Abs(b1.X1-b2.X1)+math.Abs(b1.Y1-b2.Y1) > 1e-9*size+1e-6 { // 1e-6: features below the resolution of the root solvers (absolute Epsilon)
		return vf.Errorf("Bounds %v became %v", b1, b2)
	}
	if math.Abs(p.Length()-q.Length()) > 1e-2*p.Length()+1e-9 { // Length is itself an approximation (true lengths are compared above)
		return vf.Errorf("Length %v became %v", p.Length(), q.Length())
	}
	// winding numbers negate
	pin, pout := oracle.Sample(in, 300), oracle.Sample(out, 300)
	for _, pt := range c.Q {
		w1, d1 := oracle.Winding(pin, oracle.Pt{X: pt[0], Y: pt[1]})
		w2, _ := oracle.Winding(pout, oracle.Pt{X: pt[0], Y: pt[1]})
		if d1 > 1e-3*size && w1 != -w2 {
			return vf.Errorf("winding number around %v is %d, after Reverse %d", pt, w1, w2)
		}
	}
	return nil
}

func TestReverse(t *testing.T) {
	vf.Run(t, vf.Prop[RCase]{Sub: "reverse", Gen: genRev, Check: checkReverse, Cases: vf.N(2500, 40000)})
}
