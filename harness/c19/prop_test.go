package c19

import (
	"fmt"
	"image"
	"image/color"
	"image/png"
	"math"
	"os"
	"sort"
	"strconv"
	"strings"
	"testing"

	"github.com/tdewolff/canvas"
	"pgregory.net/rapid"

	"verif/harness/dl"
	"verif/harness/geo"
	"verif/harness/oracle"
	"verif/harness/replay"
	"verif/harness/svgread"
	"verif/harness/vf"
)

func TestMain(m *testing.M) { vf.Main(m, "C19") }

// ---------------- document model ----------------

type KV [2]string

type TOp struct {
	Fn string    `json:"fn"`
	A  []float64 `json:"a"`
}

type Node struct {
	Tag       string    `json:"tag"`
	ID        string    `json:"id,omitempty"`
	Class     string    `json:"class,omitempty"`
	Attrs     []KV      `json:"attrs,omitempty"` // presentation attributes, in document order
	Style     []KV      `json:"style,omitempty"` // declarations of the style attribute
	Transform []TOp     `json:"transform,omitempty"`
	Geom      []float64 `json:"geom,omitempty"`
	D         string    `json:"d,omitempty"`
	Children  []Node    `json:"children,omitempty"`
	StyleAt   int       `json:"style_at,omitempty"` // position of the style attribute among the attributes
}

// Anc is a compound selector for an ancestor and the combinator that follows it (" " descendant, ">" child).
type Anc struct {
	Type  string `json:"type,omitempty"`
	Class string `json:"class,omitempty"`
	Comb  string `json:"comb"`
}

type Rule struct {
	Chain []Anc  `json:"chain,omitempty"` // ancestors, outermost first
	Type  string `json:"type,omitempty"`
	Class string `json:"class,omitempty"`
	ID    string `json:"id,omitempty"`
	Decls []KV   `json:"decls"`
}

type Case struct {
	Width   string     `json:"width"` // with unit
	Height  string     `json:"height"`
	ViewBox []float64  `json:"viewbox,omitempty"`
	Rules   [][]Rule   `json:"rules,omitempty"` // one list per style element
	Nodes   []Node     `json:"nodes"`
	Sep     int        `json:"sep"` // list separator style
}

var colours = []string{"red", "#00f", "#008000", "rgb(255,200,0)", "black", "#5a5a5a", "none", "blue", "rgb(100%,0%,50%)"}

var named = map[string][3]float64{"red": {1, 0, 0}, "#00f": {0, 0, 1}, "#008000": {0, 128.0 / 255, 0}, "rgb(255,200,0)": {1, 200.0 / 255, 0}, "black": {0, 0, 0}, "#5a5a5a": {90.0 / 255, 90.0 / 255, 90.0 / 255}, "blue": {0, 0, 1}, "rgb(100%,0%,50%)": {1, 0, 0.5}}

func genDecls(t *rapid.T, label string, max int) []KV {
	n := rapid.IntRange(0, max).Draw(t, label+"n")
	var out []KV
	seen := map[string]bool{}
	for i := 0; i < n; i++ {
		k := []string{"fill", "stroke", "stroke-width", "fill-rule", "stroke-linecap", "stroke-linejoin", "stroke-miterlimit", "stroke-dasharray", "stroke-dashoffset"}[rapid.IntRange(0, 8).Draw(t, label+"key")]
		if seen[k] {
			continue
		}
		seen[k] = true
		var v string
		switch k {
		case "fill", "stroke":
			v = colours[rapid.IntRange(0, len(colours)-1).Draw(t, label+"col")]
		case "stroke-width":
			v = strconv.FormatFloat(float64(rapid.IntRange(2, 16).Draw(t, label+"sw"))/4, 'g', -1, 64)
		case "fill-rule":
			v = []string{"nonzero", "evenodd"}[rapid.IntRange(0, 1).Draw(t, label+"fr")]
		case "stroke-linecap":
			v = []string{"butt", "round", "square"}[rapid.IntRange(0, 2).Draw(t, label+"cap")]
		case "stroke-linejoin":
			v = []string{"miter", "round", "bevel"}[rapid.IntRange(0, 2).Draw(t, label+"join")]
		case "stroke-miterlimit":
			v = strconv.Itoa(rapid.IntRange(1, 8).Draw(t, label+"ml"))
		case "stroke-dasharray":
			nd := rapid.IntRange(1, 3).Draw(t, label+"nd")
			var parts []string
			for j := 0; j < nd; j++ {
				parts = append(parts, strconv.Itoa(rapid.IntRange(3, 9).Draw(t, label+"dash")))
			}
			v = strings.Join(parts, []string{" ", ","}[rapid.IntRange(0, 1).Draw(t, label+"dsep")])
			if rapid.IntRange(0, 5).Draw(t, label+"dnone") == 0 {
				v = "none"
			}
		case "stroke-dashoffset":
			v = strconv.Itoa(rapid.IntRange(-6, 6).Draw(t, label+"doff"))
		}
		out = append(out, KV{k, v})
	}
	return out
}

func genTransform(t *rapid.T, label string) []TOp {
	n := rapid.IntRange(0, 2).Draw(t, label+"nt")
	var out []TOp
	for i := 0; i < n; i++ {
		switch rapid.IntRange(0, 7).Draw(t, label+"fn") {
		case 7:
			out = append(out, TOp{[]string{"skewX", "skewY"}[rapid.IntRange(0, 1).Draw(t, "skewxy")], []float64{float64(rapid.IntRange(-3, 3).Draw(t, "skew")) * 15}})
		case 0:
			out = append(out, TOp{"translate", []float64{float64(rapid.IntRange(-10, 20).Draw(t, "tx")), float64(rapid.IntRange(-10, 20).Draw(t, "ty"))}})
		case 1:
			out = append(out, TOp{"translate", []float64{float64(rapid.IntRange(1, 20).Draw(t, "tx"))}})
		case 2:
			out = append(out, TOp{"scale", []float64{float64(rapid.IntRange(2, 6).Draw(t, "s")) / 4}})
		case 3:
			s := float64(rapid.IntRange(2, 6).Draw(t, "s")) / 4
			s2 := s
			if rapid.Bool().Draw(t, "aniso") {
				s2 = float64(rapid.IntRange(2, 6).Draw(t, "s2")) / 4
			}
			out = append(out, TOp{"scale", []float64{s, s2}})
		case 4:
			out = append(out, TOp{"rotate", []float64{float64(rapid.IntRange(-6, 6).Draw(t, "rot")) * 15}})
		case 5:
			out = append(out, TOp{"rotate", []float64{float64(rapid.IntRange(-6, 6).Draw(t, "rot")) * 15, float64(rapid.IntRange(0, 40).Draw(t, "rcx")), float64(rapid.IntRange(0, 40).Draw(t, "rcy"))}})
		case 6:
			// matrix of a similarity: rotation by a multiple of 90 degrees, scale and translation
			s := float64(rapid.IntRange(2, 6).Draw(t, "s")) / 4
			k := rapid.IntRange(0, 3).Draw(t, "quarter")
			c, sn := []float64{1, 0, -1, 0}[k], []float64{0, 1, 0, -1}[k]
			out = append(out, TOp{"matrix", []float64{s * c, s * sn, -s * sn, s * c, float64(rapid.IntRange(0, 30).Draw(t, "e")), float64(rapid.IntRange(0, 30).Draw(t, "f"))}})
		}
	}
	return out
}

func q(t *rapid.T, label string, lo, hi int) float64 {
	return float64(rapid.IntRange(lo*2, hi*2).Draw(t, label)) / 2
}

func genNode(t *rapid.T, depth int) Node {
	tags := []string{"rect", "circle", "ellipse", "line", "polyline", "polygon", "path", "g", "g"}
	if depth >= 3 {
		tags = tags[:7]
	}
	n := Node{Tag: tags[rapid.IntRange(0, len(tags)-1).Draw(t, "tag")]}
	if rapid.IntRange(0, 2).Draw(t, "hasid") == 0 {
		n.ID = []string{"a", "b", "c"}[rapid.IntRange(0, 2).Draw(t, "id")]
	}
	if rapid.IntRange(0, 2).Draw(t, "hasclass") == 0 {
		n.Class = []string{"k", "m", "k m"}[rapid.IntRange(0, 2).Draw(t, "class")]
	}
	n.Attrs = genDecls(t, "attr", 3)
	if rapid.IntRange(0, 2).Draw(t, "hasstyle") == 0 {
		n.Style = genDecls(t, "style", 2)
		n.StyleAt = rapid.IntRange(0, 3).Draw(t, "styleat")
	}
	n.Transform = genTransform(t, "tr")
	switch n.Tag {
	case "g":
		k := rapid.IntRange(1, 3-depth/2).Draw(t, "nchildren")
		for i := 0; i < k; i++ {
			n.Children = append(n.Children, genNode(t, depth+1))
		}
	case "rect":
		n.Geom = []float64{q(t, "x", 0, 40), q(t, "y", 0, 40), q(t, "w", 4, 40), q(t, "h", 4, 40)}
	case "circle":
		n.Geom = []float64{q(t, "cx", 0, 60), q(t, "cy", 0, 60), q(t, "r", 3, 12)} // large arcs are flattened with an error that grows with the radius (F03c of C03)
	case "ellipse":
		rx := q(t, "rx", 4, 12)
		n.Geom = []float64{q(t, "cx", 0, 60), q(t, "cy", 0, 60), rx, rx * float64(rapid.IntRange(3, 8).Draw(t, "aspect")) / 5}
	case "line":
		n.Geom = []float64{q(t, "x1", 0, 60), q(t, "y1", 0, 60), q(t, "x2", 0, 60), q(t, "y2", 0, 60)}
	case "polyline", "polygon":
		k := rapid.IntRange(3, 5).Draw(t, "npts")
		// points on a circle in shuffled angular order: no coincident points, no hairpins
		cx, cy, r := q(t, "cx", 10, 50), q(t, "cy", 10, 50), q(t, "r", 6, 25)
		start := rapid.IntRange(0, 11).Draw(t, "a0")
		step := 12 / k // a convex polygon
		if n.Tag == "polygon" && rapid.IntRange(0, 2).Draw(t, "star") == 0 {
			// a pentagram: the fill rules differ. The library's stroker loses parts of the outline of self-intersecting closed paths (a finding of C04, not of the importer), so the star is never stroked: the style attribute has the last word
			k, step = 5, 5
			n.Style = append([]KV{{"stroke", "none"}}, n.Style...)
			for i := len(n.Style) - 1; i > 0; i-- {
				if n.Style[i][0] == "stroke" {
					n.Style = append(n.Style[:i], n.Style[i+1:]...)
				}
			}
		}
		for i := 0; i < k; i++ {
			a := float64((start+i*step)%12) * 30 * math.Pi / 180
			n.Geom = append(n.Geom, math.Round((cx+r*math.Cos(a))*4)/4, math.Round((cy+r*math.Sin(a))*4)/4)
		}
	case "path":
		x, y := q(t, "x", 5, 40), q(t, "y", 5, 40)
		w, h := q(t, "w", 8, 30), q(t, "h", 8, 30)
		switch rapid.IntRange(0, 2).Draw(t, "pathkind") {
		case 0:
			n.D = fmt.Sprintf("M%g %gh%gv%gH%gz", x, y, w, h, x)
		case 1:
			n.D = fmt.Sprintf("M%g,%g l%g,0 l%g,%g Q%g %g %g %g Z", x, y, w, -w/2, h, x-4, y+h, x, y)
		case 2:
			n.D = fmt.Sprintf("M%g %gA%g %g 0 1 0 %g %gL%g %gz m 2 2 h 3 v 3 h -3 z", x, y, w/2, h/2, x+w, y, x+w/2, y+h)
		}
	}
	return n
}

func genCase(t *rapid.T) Case {
	var c Case
	unit := []string{"mm", "", "px", "pt", "cm", "in"}[rapid.IntRange(0, 5).Draw(t, "unit")]
	wmm := float64(rapid.IntRange(4, 12).Draw(t, "wmm")) * 10
	hmm := float64(rapid.IntRange(4, 12).Draw(t, "hmm")) * 10
	per := map[string]float64{"mm": 1, "": 25.4 / 96, "px": 25.4 / 96, "pt": 25.4 / 72, "cm": 10, "in": 25.4}[unit]
	c.Width = strconv.FormatFloat(math.Round(wmm/per*1000)/1000, 'g', -1, 64) + unit
	c.Height = strconv.FormatFloat(math.Round(hmm/per*1000)/1000, 'g', -1, 64) + unit
	switch rapid.IntRange(0, 3).Draw(t, "viewbox") {
	case 0:
		// no viewBox: user units are pixels
	case 1:
		c.ViewBox = []float64{0, 0, wmm, hmm}
	case 2:
		f := float64(rapid.IntRange(2, 8).Draw(t, "vbscale")) / 4
		c.ViewBox = []float64{float64(rapid.IntRange(-10, 10).Draw(t, "vbx")), float64(rapid.IntRange(-10, 10).Draw(t, "vby")), wmm * f, hmm * f}
	case 3:
		c.ViewBox = []float64{0, 0, 100, 100 * hmm / wmm}
	}
	n := rapid.IntRange(1, 4).Draw(t, "nnodes")
	for i := 0; i < n; i++ {
		if rapid.IntRange(0, 3).Draw(t, "nest") == 0 {
			// three nested groups around one shape: several ancestors match the same compound selector
			leaf := genNode(t, 3)
			for d := 0; d < 3; d++ {
				g := Node{Tag: "g", Children: []Node{leaf}}
				if rapid.Bool().Draw(t, "nestclass") {
					g.Class = []string{"k", "m"}[rapid.IntRange(0, 1).Draw(t, "nestclassname")]
				}
				if rapid.IntRange(0, 3).Draw(t, "nestattr") == 0 {
					g.Attrs = genDecls(t, "nestattrs", 2)
				}
				leaf = g
			}
			c.Nodes = append(c.Nodes, leaf)
			continue
		}
		c.Nodes = append(c.Nodes, genNode(t, 0))
	}
	// the ancestor chains of all shapes, for rules aimed at elements that exist
	var chains [][]Node
	var collect func(n Node, anc []Node)
	collect = func(n Node, anc []Node) {
		if n.Tag != "g" {
			chains = append(chains, append(anc[:len(anc):len(anc)], n))
			return
		}
		for _, ch := range n.Children {
			collect(ch, append(anc[:len(anc):len(anc)], n))
		}
	}
	for _, nd := range c.Nodes {
		collect(nd, nil)
	}
	ns := rapid.IntRange(0, 2).Draw(t, "nstyle")
	for s := 0; s < ns; s++ {
		var rules []Rule
		nr := rapid.IntRange(1, 3).Draw(t, "nrules")
		for i := 0; i < nr; i++ {
			var r Rule
			switch rapid.IntRange(0, 4).Draw(t, "sel") {
			case 0:
				r.Type = []string{"rect", "circle", "g", "path", "polygon"}[rapid.IntRange(0, 4).Draw(t, "seltype")]
			case 1:
				r.Class = []string{"k", "m"}[rapid.IntRange(0, 1).Draw(t, "selclass")]
			case 2:
				r.ID = []string{"a", "b", "c"}[rapid.IntRange(0, 2).Draw(t, "selid")]
			case 3:
				r.Type = []string{"rect", "circle", "path"}[rapid.IntRange(0, 2).Draw(t, "seltype")]
				r.Class = []string{"k", "m"}[rapid.IntRange(0, 1).Draw(t, "selclass")]
			case 4:
				r.Type = "*"
			}
			if len(chains) > 0 && rapid.IntRange(0, 2).Draw(t, "aimed") == 0 {
				// a selector built from an existing shape and some of its ancestors, with arbitrary combinators
				ch := chains[rapid.IntRange(0, len(chains)-1).Draw(t, "chain")]
				subj := ch[len(ch)-1]
				r = Rule{Type: subj.Tag}
				if cl := strings.Fields(subj.Class); len(cl) > 0 && rapid.Bool().Draw(t, "subjclass") {
					r.Class = cl[0]
				}
				for _, a := range ch[:len(ch)-1] {
					if rapid.IntRange(0, 2).Draw(t, "skipanc") == 0 {
						continue
					}
					an := Anc{Type: "g", Comb: []string{" ", ">"}[rapid.IntRange(0, 1).Draw(t, "comb")]}
					if cl := strings.Fields(a.Class); len(cl) > 0 && rapid.Bool().Draw(t, "ancclass2") {
						an.Class = cl[0]
					}
					r.Chain = append(r.Chain, an)
				}
				if len(r.Chain) > 2 {
					r.Chain = r.Chain[len(r.Chain)-2:]
				}
			} else if rapid.IntRange(0, 2).Draw(t, "combinator") == 0 {
				na := rapid.IntRange(1, 2).Draw(t, "nanc")
				for k := 0; k < na; k++ {
					a := Anc{Comb: []string{" ", ">"}[rapid.IntRange(0, 1).Draw(t, "comb")]}
					if rapid.IntRange(0, 3).Draw(t, "anctype") != 0 {
						a.Type = "g"
					}
					if a.Type == "" || rapid.IntRange(0, 2).Draw(t, "ancclass") == 0 {
						a.Class = []string{"k", "m"}[rapid.IntRange(0, 1).Draw(t, "ancclassname")]
					}
					r.Chain = append(r.Chain, a)
				}
			}
			r.Decls = genDecls(t, "rule", 3)
			rules = append(rules, r)
		}
		c.Rules = append(c.Rules, rules)
	}
	c.Sep = rapid.IntRange(0, 2).Draw(t, "sep")
	return c
}

// ---------------- serialisation ----------------

func num(f float64) string { return strconv.FormatFloat(f, 'g', -1, 64) }

func (c Case) XML() string {
	var sb strings.Builder
	sb.WriteString(`<svg xmlns="http://www.w3.org/2000/svg" width="` + c.Width + `" height="` + c.Height + `"`)
	if c.ViewBox != nil {
		vsep := []string{" ", ",", ", "}[c.Sep]
		sb.WriteString(` viewBox="` + num(c.ViewBox[0]) + vsep + num(c.ViewBox[1]) + vsep + num(c.ViewBox[2]) + vsep + num(c.ViewBox[3]) + `"`)
	}
	sb.WriteString(">")
	for _, rules := range c.Rules {
		sb.WriteString("<style>")
		for _, r := range rules {
			sel := ""
			for _, a := range r.Chain {
				sel += a.Type
				if a.Class != "" {
					sel += "." + a.Class
				}
				if a.Comb == ">" {
					sel += " > "
				} else {
					sel += " "
				}
			}
			sel += r.Type
			if r.Class != "" {
				sel += "." + r.Class
			}
			if r.ID != "" {
				sel += "#" + r.ID
			}
			sb.WriteString(sel + "{")
			for i, d := range r.Decls {
				if i > 0 {
					sb.WriteString(";")
				}
				sb.WriteString(d[0] + ":" + d[1])
			}
			sb.WriteString("}\n")
		}
		sb.WriteString("</style>")
	}
	for _, n := range c.Nodes {
		c.writeNode(&sb, n)
	}
	sb.WriteString("</svg>")
	return sb.String()
}

func (c Case) writeNode(sb *strings.Builder, n Node) {
	sep := []string{" ", ",", ", "}[c.Sep]
	sb.WriteString("<" + n.Tag)
	var attrs []KV
	if n.ID != "" {
		attrs = append(attrs, KV{"id", n.ID})
	}
	if n.Class != "" {
		attrs = append(attrs, KV{"class", n.Class})
	}
	names := map[string][]string{"rect": {"x", "y", "width", "height"}, "circle": {"cx", "cy", "r"}, "ellipse": {"cx", "cy", "rx", "ry"}, "line": {"x1", "y1", "x2", "y2"}}
	if g, ok := names[n.Tag]; ok {
		for i, k := range g {
			attrs = append(attrs, KV{k, num(n.Geom[i])})
		}
	}
	if n.Tag == "polyline" || n.Tag == "polygon" {
		var pts []string
		for i := 0; i+1 < len(n.Geom); i += 2 {
			pts = append(pts, num(n.Geom[i])+","+num(n.Geom[i+1]))
		}
		attrs = append(attrs, KV{"points", strings.Join(pts, " ")})
	}
	if n.Tag == "path" {
		attrs = append(attrs, KV{"d", n.D})
	}
	if len(n.Transform) > 0 {
		var parts []string
		for _, op := range n.Transform {
			var a []string
			for _, x := range op.A {
				a = append(a, num(x))
			}
			parts = append(parts, op.Fn+"("+strings.Join(a, sep)+")")
		}
		attrs = append(attrs, KV{"transform", strings.Join(parts, " ")})
	}
	pres := append([]KV(nil), n.Attrs...)
	if n.Style != nil {
		var decl []string
		for _, d := range n.Style {
			decl = append(decl, d[0]+":"+d[1])
		}
		at := n.StyleAt
		if at > len(pres) {
			at = len(pres)
		}
		pres = append(pres[:at:at], append([]KV{{"style", strings.Join(decl, ";")}}, pres[at:]...)...)
	}
	attrs = append(attrs, pres...)
	for _, a := range attrs {
		sb.WriteString(" " + a[0] + `="` + a[1] + `"`)
	}
	if n.Tag == "g" {
		sb.WriteString(">")
		for _, ch := range n.Children {
			c.writeNode(sb, ch)
		}
		sb.WriteString("</g>")
	} else {
		sb.WriteString("/>")
	}
}

// ---------------- the model: what SVG 1.1 and the CSS cascade say the document draws ----------------

type props map[string]string

var initial = props{"fill": "black", "stroke": "none", "stroke-width": "1", "fill-rule": "nonzero", "stroke-linecap": "butt", "stroke-linejoin": "miter", "stroke-miterlimit": "4", "stroke-dasharray": "none", "stroke-dashoffset": "0"}

func hasClass(n Node, class string) bool {
	for _, cl := range strings.Fields(n.Class) {
		if cl == class {
			return true
		}
	}
	return false
}

// matches implements selector matching from the subject leftwards with backtracking: a child combinator fixes the parent, a descendant combinator tries every ancestor.
func (r Rule) matches(n Node, anc []Node) bool {
	if !r.matchesSubject(n) {
		return false
	}
	var up func(i int, k int) bool // chain element i must match an ancestor; k is the index of the element already matched (len(anc) for the subject)
	up = func(i, k int) bool {
		if i < 0 {
			return true
		}
		a := r.Chain[i]
		ok := func(m Node) bool {
			return (a.Type == "" || a.Type == m.Tag) && (a.Class == "" || hasClass(m, a.Class))
		}
		if a.Comb == ">" {
			return k-1 >= 0 && ok(anc[k-1]) && up(i-1, k-1)
		}
		for j := k - 1; j >= 0; j-- {
			if ok(anc[j]) && up(i-1, j) {
				return true
			}
		}
		return false
	}
	return up(len(r.Chain)-1, len(anc))
}

func (r Rule) matchesSubject(n Node) bool {
	if r.Type != "" && r.Type != "*" && r.Type != n.Tag {
		return false
	}
	if r.ID != "" && r.ID != n.ID {
		return false
	}
	if r.Class != "" {
		ok := false
		for _, cl := range strings.Fields(n.Class) {
			if cl == r.Class {
				ok = true
			}
		}
		if !ok {
			return false
		}
	}
	return true
}

func (r Rule) specificity() int {
	s := 0
	if r.ID != "" {
		s += 100
	}
	if r.Class != "" {
		s += 10
	}
	if r.Type != "" && r.Type != "*" {
		s++
	}
	for _, a := range r.Chain {
		if a.Class != "" {
			s += 10
		}
		if a.Type != "" {
			s++
		}
	}
	return s
}

// cascade returns the computed properties of n: inherited values, overridden by presentation attributes, then by matching rules in order of specificity and position, then by the style attribute. conflict reports whether precedence between the sources actually mattered.
func (c Case) cascade(n Node, anc []Node, inherited props) (props, bool) {
	p := props{}
	for k, v := range inherited {
		p[k] = v
	}
	conflict := false
	setBy := map[string]string{}
	for _, a := range n.Attrs {
		p[a[0]] = a[1]
		setBy[a[0]] = "attr"
	}
	type mr struct {
		r   Rule
		pos int
	}
	var ms []mr
	pos := 0
	for _, rules := range c.Rules {
		for _, r := range rules {
			if r.matches(n, anc) {
				ms = append(ms, mr{r, pos})
			}
			pos++
		}
	}
	sort.SliceStable(ms, func(i, j int) bool {
		if ms[i].r.specificity() != ms[j].r.specificity() {
			return ms[i].r.specificity() < ms[j].r.specificity()
		}
		return ms[i].pos < ms[j].pos
	})
	for _, m := range ms {
		for _, d := range m.r.Decls {
			if prev, ok := setBy[d[0]]; ok && p[d[0]] != d[1] && prev != "" {
				conflict = true
			}
			p[d[0]] = d[1]
			setBy[d[0]] = "rule"
		}
	}
	for _, d := range n.Style {
		if _, ok := setBy[d[0]]; ok && p[d[0]] != d[1] {
			conflict = true
		}
		p[d[0]] = d[1]
		setBy[d[0]] = "style"
	}
	return p, conflict
}

func opMat(op TOp) oracle.Mat {
	a := op.A
	switch op.Fn {
	case "translate":
		if len(a) == 1 {
			return oracle.Translate(a[0], 0)
		}
		return oracle.Translate(a[0], a[1])
	case "scale":
		if len(a) == 1 {
			return oracle.Scale(a[0], a[0])
		}
		return oracle.Scale(a[0], a[1])
	case "rotate":
		if len(a) == 1 {
			return oracle.Rotate(a[0])
		}
		return oracle.Translate(a[1], a[2]).Mul(oracle.Rotate(a[0])).Mul(oracle.Translate(-a[1], -a[2]))
	case "matrix":
		return oracle.Mat{a[0], a[2], a[4], a[1], a[3], a[5]}
	case "skewX":
		return oracle.Mat{1, math.Tan(a[0] * math.Pi / 180), 0, 0, 1, 0}
	case "skewY":
		return oracle.Mat{1, 0, 0, math.Tan(a[0] * math.Pi / 180), 1, 0}
	}
	return oracle.Identity()
}

func parseLen(s string) float64 {
	units := []struct {
		suffix string
		mm     float64
	}{{"mm", 1}, {"cm", 10}, {"in", 25.4}, {"pt", 25.4 / 72}, {"px", 25.4 / 96}}
	for _, u := range units {
		if strings.HasSuffix(s, u.suffix) {
			f, _ := strconv.ParseFloat(strings.TrimSuffix(s, u.suffix), 64)
			return f * u.mm
		}
	}
	f, _ := strconv.ParseFloat(s, 64)
	return f * 25.4 / 96
}

type modelInfo struct {
	conflict  bool
	dashed    bool
	nested    bool
	evenodd   bool
	hasStroke bool
}

// Model computes the display list of the document in millimetres, y down.
func (c Case) Model() (*dl.Doc, modelInfo, error) {
	doc := &dl.Doc{W: parseLen(c.Width), H: parseLen(c.Height), YDown: true}
	var info modelInfo
	// viewport: user units are pixels, or the viewBox is fitted (preserveAspectRatio xMidYMid meet)
	base := oracle.Scale(25.4/96, 25.4/96)
	if c.ViewBox != nil {
		sx, sy := doc.W/c.ViewBox[2], doc.H/c.ViewBox[3]
		s := math.Min(sx, sy)
		tx := (doc.W-c.ViewBox[2]*s)/2 - c.ViewBox[0]*s
		ty := (doc.H-c.ViewBox[3]*s)/2 - c.ViewBox[1]*s
		base = oracle.Translate(tx, ty).Mul(oracle.Scale(s, s))
	}
	var walk func(n Node, anc []Node, ctm oracle.Mat, inh props, depth int) error
	walk = func(n Node, anc []Node, ctm oracle.Mat, inh props, depth int) error {
		p, conflict := c.cascade(n, anc, inh)
		if conflict {
			info.conflict = true
		}
		for _, op := range n.Transform {
			ctm = ctm.Mul(opMat(op))
		}
		if n.Tag == "g" {
			for _, ch := range n.Children {
				info.nested = true
				if err := walk(ch, append(anc[:len(anc):len(anc)], n), ctm, p, depth+1); err != nil {
					return err
				}
			}
			return nil
		}
		b := &geo.Builder{}
		g := n.Geom
		switch n.Tag {
		case "rect":
			b.MoveTo(g[0], g[1])
			b.LineTo(g[0]+g[2], g[1])
			b.LineTo(g[0]+g[2], g[1]+g[3])
			b.LineTo(g[0], g[1]+g[3])
			b.Close()
		case "circle", "ellipse":
			rx, ry := g[2], g[2]
			if n.Tag == "ellipse" {
				ry = g[3]
			}
			b.MoveTo(g[0]+rx, g[1])
			b.ArcTo(rx, ry, 0, false, true, g[0], g[1]+ry)
			b.ArcTo(rx, ry, 0, false, true, g[0]-rx, g[1])
			b.ArcTo(rx, ry, 0, false, true, g[0], g[1]-ry)
			b.ArcTo(rx, ry, 0, false, true, g[0]+rx, g[1])
			b.Close()
		case "line":
			b.MoveTo(g[0], g[1])
			b.LineTo(g[2], g[3])
		case "polyline", "polygon":
			b.MoveTo(g[0], g[1])
			for i := 2; i+1 < len(g); i += 2 {
				b.LineTo(g[i], g[i+1])
			}
			if n.Tag == "polygon" {
				b.Close()
			}
		case "path":
			segs, err := svgread.ParsePathData(n.D)
			if err != nil {
				return err
			}
			b.Segs = segs
		}
		// the shape is painted in its own user space and mapped by the current transformation matrix
		m := base.Mul(ctm)
		const sx = 1.0
		it := dl.Item{Segs: b.Segs, M: &m}
		if f := p["fill"]; f != "none" && n.Tag != "line" {
			rgb := named[f]
			it.Fill = &dl.Paint{Color: dl.RGBA{R: rgb[0], G: rgb[1], B: rgb[2], A: 1}}
			it.EvenOdd = p["fill-rule"] == "evenodd"
			if it.EvenOdd {
				info.evenodd = true
			}
		}
		if s := p["stroke"]; s != "none" {
			rgb := named[s]
			w, _ := strconv.ParseFloat(p["stroke-width"], 64)
			st := &dl.Stroke{Paint: dl.Paint{Color: dl.RGBA{R: rgb[0], G: rgb[1], B: rgb[2], A: 1}}, Width: w * sx}
			st.Cap = map[string]int{"butt": dl.CapButt, "round": dl.CapRound, "square": dl.CapSquare}[p["stroke-linecap"]]
			st.Join = map[string]int{"miter": dl.JoinMiter, "round": dl.JoinRound, "bevel": dl.JoinBevel}[p["stroke-linejoin"]]
			st.MiterLimit, _ = strconv.ParseFloat(p["stroke-miterlimit"], 64)
			if da := p["stroke-dasharray"]; da != "none" {
				for _, f := range strings.Fields(strings.ReplaceAll(da, ",", " ")) {
					d, _ := strconv.ParseFloat(f, 64)
					st.Dashes = append(st.Dashes, d*sx)
				}
				if len(st.Dashes)%2 == 1 {
					st.Dashes = append(st.Dashes, st.Dashes...)
				}
				off, _ := strconv.ParseFloat(p["stroke-dashoffset"], 64)
				st.DashOffset = off * sx
				info.dashed = true
			}
			if w > 0 {
				it.Stroke = st
				info.hasStroke = true
			}
		}
		if it.Fill != nil || it.Stroke != nil {
			doc.Items = append(doc.Items, it)
		}
		return nil
	}
	for _, n := range c.Nodes {
		if err := walk(n, nil, oracle.Identity(), initial, 0); err != nil {
			return nil, info, err
		}
	}
	return doc, info, nil
}

// ---------------- the check ----------------

// geometryPanic tells whether rasterizing (the measuring device here) panicked inside the library's path geometry code (stroking, settling): a robustness defect of those operations (C02, C04), not a statement about the importer.
func geometryPanic(err error) bool {
	msg := err.Error()
	i := strings.Index(msg, "\npanic(")
	if i < 0 {
		return false
	}
	rest := msg[i+1:]
	j := strings.Index(rest, "github.com/tdewolff/canvas")
	return j >= 0 && strings.HasPrefix(rest[j:], "github.com/tdewolff/canvas.")
}

const dpmm = 3.0

func checkCase(c Case, r *vf.R) error {
	doc, info, err := c.Model()
	if err != nil {
		return vf.Errorf("model: %v", err)
	}
	xml := c.XML()
	var cv *canvas.Canvas
	var perr error
	if err := vf.Try("ParseSVG", func() { cv, perr = canvas.ParseSVG(strings.NewReader(xml)) }); err != nil {
		return err
	}
	if perr != nil {
		return vf.Errorf("ParseSVG rejects the document: %v\n%s", perr, xml)
	}
	r.ClassIf(info.conflict, "cascade-conflict")
	r.ClassIf(info.dashed, "dashed")
	r.ClassIf(info.nested, "nested-groups")
	r.ClassIf(info.evenodd, "evenodd")
	r.ClassIf(c.ViewBox == nil, "no-viewbox")
	r.ClassIf(len(c.Rules) > 0, "css-rules")
	if info.nested && len(doc.Items) >= 2 {
		r.NonTrivial()
	}
	if math.Abs(cv.W-doc.W) > 1e-3*doc.W || math.Abs(cv.H-doc.H) > 1e-3*doc.H {
		return vf.Errorf("the canvas is %.5g x %.5g mm, the document says %.5g x %.5g mm (width=%q height=%q)", cv.W, cv.H, doc.W, doc.H, c.Width, c.Height)
	}
	var ref, got *image.RGBA
	var rerr error
	if err := vf.Try("rasterizing", func() {
		ref = replay.Raster(cv, dpmm)
		var c2 *canvas.Canvas
		c2, rerr = replay.ToCanvas(doc)
		if rerr == nil {
			got = replay.Raster(c2, dpmm)
		}
	}); err != nil {
		if geometryPanic(err) {
			r.Class("skipped:panic-in-path-geometry")
			return nil
		}
		return err
	}
	if rerr != nil {
		return vf.Errorf("replay: %v", rerr)
	}
	if ref.Bounds() != got.Bounds() {
		return vf.Errorf("raster sizes differ: %v and %v", ref.Bounds(), got.Bounds())
	}
	if dir := os.Getenv("VERIF_DUMP"); dir != "" {
		dump(dir+"/parsesvg.png", ref)
		dump(dir+"/specified.png", got)
	}
	bad, worst, at := replay.Compare(got, ref, 64)
	npix := ref.Bounds().Dx() * ref.Bounds().Dy()
	limit := 8 + npix/600
	// dash boundaries on curved segments sit where the approximated inverse arc length puts them; ParseSVG and the
	// model cut circles and ellipses into different arcs, so the boundaries may differ by a fraction of a pixel,
	// which changes the pixels along each cut: half the stroke width in pixels per boundary is allowed
	for _, it := range doc.Items {
		if it.Stroke == nil || len(it.Stroke.Dashes) == 0 || it.M == nil {
			continue
		}
		curved, length := false, 0.0
		for _, sg := range it.Segs {
			curved = curved || sg.Curved()
			length += oracle.SegLength(sg, 32)
		}
		period := 0.0
		for _, d := range it.Stroke.Dashes {
			period += d
		}
		if curved && period > 0 {
			scale := math.Sqrt(math.Abs(it.M.Det()))
			boundaries := 2 * length / period * float64(len(it.Stroke.Dashes)) / 2
			limit += int(boundaries * math.Max(1, it.Stroke.Width*scale*dpmm) / 2)
		}
	}
	vf.Max("pixels-differing", float64(bad), "largest number of differing pixels in an accepted case")
	if bad > limit {
		// the rasterizer strokes both drawings: where the half width exceeds a quarter of the radius of curvature the
		// stroker's outline has holes and spurious area (finding F04g of C04), differently for differently cut arcs
		tight := false
		for _, it := range doc.Items {
			if it.Stroke != nil && geo.MinRadius(it.Segs) < 2*it.Stroke.Width {
				tight = true
			}
		}
		if r.Excluded("F04g", tight) {
			return nil
		}
		x, y := (float64(at.X)+0.5)/dpmm, (float64(at.Y)+0.5)/dpmm
		return vf.Errorf("%d of %d pixels differ from what the document specifies by more than 64/255 (allowed %d); worst %d/255 at (%.2f,%.2f) mm from the top-left: ParseSVG canvas %v, specified %v\n%s", bad, npix, limit, worst, x, y, ref.RGBAAt(at.X, at.Y), got.RGBAAt(at.X, at.Y), xml)
	}
	return nil
}

func TestDocument(t *testing.T) {
	vf.Run(t, vf.Prop[Case]{Sub: "document", Gen: genCase, Check: checkCase, Cases: vf.N(4000, 40000)})
}

func dump(name string, img *image.RGBA) {
	const k = 3
	b := img.Bounds()
	out := image.NewRGBA(image.Rect(0, 0, b.Dx()*k, b.Dy()*k))
	for y := 0; y < b.Dy()*k; y++ {
		for x := 0; x < b.Dx()*k; x++ {
			c := img.RGBAAt(x/k, y/k)
			a := 255 - int(c.A)
			out.SetRGBA(x, y, color.RGBA{uint8(int(c.R) + a), uint8(int(c.G) + a), uint8(int(c.B) + a), 255})
		}
	}
	f, err := os.Create(name)
	if err != nil {
		return
	}
	defer f.Close()
	png.Encode(f, out)
}
