package c19

import (
	"bytes"
	"image"
	"image/color"
	"math"
	"testing"

	"github.com/tdewolff/canvas"
	"github.com/tdewolff/canvas/renderers/svg"
	"pgregory.net/rapid"

	"verif/harness/replay"
	"verif/harness/vf"
)

// Round trip: a drawing of styled paths written by the SVG renderer and read back by ParseSVG must rasterize like the drawing itself.

type RDraw struct {
	Shape   int       `json:"shape"`
	XY      []float64 `json:"xy"`
	Fill    int       `json:"fill"`
	Stroke  int       `json:"stroke"`
	Width   float64   `json:"width"`
	Cap     int       `json:"cap"`
	Join    int       `json:"join"`
	Limit   float64   `json:"limit"`
	Dashes  []float64 `json:"dashes,omitempty"` // millimetres
	DashOff float64   `json:"dashoff,omitempty"`
	EvenOdd bool      `json:"evenodd,omitempty"`
	View    []float64 `json:"view"`
}

type RCase struct {
	W     float64 `json:"w"`
	H     float64 `json:"h"`
	Draws []RDraw `json:"draws"`
}

var rpalette = []color.RGBA{{255, 0, 0, 255}, {0, 128, 0, 255}, {0, 0, 255, 255}, {0, 0, 0, 255}, {90, 90, 90, 255}, {255, 200, 0, 255}}

func genR(t *rapid.T) RCase {
	c := RCase{W: float64(rapid.IntRange(4, 12).Draw(t, "w")) * 10, H: float64(rapid.IntRange(4, 12).Draw(t, "h")) * 10}
	n := rapid.IntRange(1, 3).Draw(t, "n")
	for i := 0; i < n; i++ {
		d := RDraw{Shape: rapid.IntRange(0, 4).Draw(t, "shape")}
		d.XY = []float64{q(t, "x", 5, 40), q(t, "y", 5, 40), q(t, "a", 6, 30), q(t, "b", 6, 30)}
		d.Fill = rapid.IntRange(-1, len(rpalette)-1).Draw(t, "fill")
		d.Stroke = rapid.IntRange(-1, len(rpalette)-1).Draw(t, "stroke")
		d.Width = float64(rapid.IntRange(1, 12).Draw(t, "width")) / 4
		d.Cap = rapid.IntRange(0, 2).Draw(t, "cap")
		d.Join = rapid.IntRange(0, 2).Draw(t, "join")
		d.Limit = float64(rapid.IntRange(4, 24).Draw(t, "limit")) / 4
		if rapid.IntRange(0, 2).Draw(t, "dashed") == 0 {
			nd := rapid.IntRange(1, 3).Draw(t, "nd")
			for k := 0; k < nd; k++ {
				// off the quarter-millimetre lattice of the shapes: a dash boundary exactly on a corner makes the join there depend on the last bit
				d.Dashes = append(d.Dashes, float64(rapid.IntRange(3, 16).Draw(t, "dash"))/4+0.07)
			}
			d.DashOff = float64(rapid.IntRange(-12, 12).Draw(t, "dashoff")) / 4
		}
		d.EvenOdd = rapid.Bool().Draw(t, "evenodd")
		switch rapid.IntRange(0, 3).Draw(t, "view") {
		case 0:
			d.View = []float64{0}
		case 1:
			d.View = []float64{1, q(t, "tx", -5, 20), q(t, "ty", -5, 20)}
		case 2:
			d.View = []float64{2, float64(rapid.IntRange(2, 8).Draw(t, "s")) / 4}
		case 3:
			d.View = []float64{3, float64(rapid.IntRange(-6, 6).Draw(t, "rot")) * 15, q(t, "tx", 0, 30), q(t, "ty", 0, 30)}
		}
		c.Draws = append(c.Draws, d)
	}
	return c
}

func (c RCase) canvas() *canvas.Canvas {
	cv := canvas.New(c.W, c.H)
	ctx := canvas.NewContext(cv)
	for _, d := range c.Draws {
		switch int(d.View[0]) {
		case 1:
			ctx.SetView(canvas.Identity.Translate(d.View[1], d.View[2]))
		case 2:
			ctx.SetView(canvas.Identity.Scale(d.View[1], d.View[1]))
		case 3:
			ctx.SetView(canvas.Identity.Translate(d.View[2], d.View[3]).Rotate(d.View[1]))
		default:
			ctx.SetView(canvas.Identity)
		}
		x, y, a, b := d.XY[0], d.XY[1], d.XY[2], d.XY[3]
		p := &canvas.Path{}
		switch d.Shape {
		case 0:
			p = canvas.Rectangle(a, b).Translate(x, y)
		case 1:
			p = canvas.Ellipse(a/2+2, (a/2+2)*(0.6+b/60)).Translate(x+a/2, y+b/2)
		case 2:
			p.MoveTo(x, y)
			p.LineTo(x+a, y+b/3)
			p.LineTo(x+a/3, y+b)
		case 3:
			p.MoveTo(x, y)
			p.LineTo(x+a, y)
			p.LineTo(x+a/2, y+b)
			p.Close()
		case 4: // two nested rectangles with the same direction: the fill rules differ
			p = canvas.Rectangle(a, b).Translate(x, y).Append(canvas.Rectangle(a/2, b/2).Translate(x+a/4, y+b/4))
		}
		ctx.SetFill(canvas.Paint{})
		if d.Fill >= 0 {
			ctx.SetFillColor(rpalette[d.Fill])
		}
		ctx.SetStroke(canvas.Paint{})
		if d.Stroke >= 0 {
			ctx.SetStrokeColor(rpalette[d.Stroke])
		}
		ctx.SetStrokeWidth(d.Width)
		ctx.SetStrokeCapper([]canvas.Capper{canvas.ButtCap, canvas.RoundCap, canvas.SquareCap}[d.Cap])
		ctx.SetStrokeJoiner([]canvas.Joiner{canvas.BevelJoin, canvas.RoundJoin, canvas.MiterJoiner{GapJoiner: canvas.BevelJoin, Limit: d.Limit}}[d.Join])
		// the library measures dashes in stroke widths
		dashes := make([]float64, len(d.Dashes))
		for i := range dashes {
			dashes[i] = d.Dashes[i] / d.Width
		}
		ctx.SetDashes(d.DashOff/d.Width, dashes...)
		if d.EvenOdd {
			ctx.SetFillRule(canvas.EvenOdd)
		} else {
			ctx.SetFillRule(canvas.NonZero)
		}
		ctx.DrawPath(0, 0, p)
	}
	return cv
}

func checkR(c RCase, r *vf.R) error {
	var cv, back *canvas.Canvas
	var buf bytes.Buffer
	var perr error
	if err := vf.Try("writing and reading SVG", func() {
		cv = c.canvas()
		w := svg.New(&buf, c.W, c.H, nil)
		cv.RenderTo(w)
		w.Close()
		back, perr = canvas.ParseSVG(bytes.NewReader(buf.Bytes()))
	}); err != nil {
		return err
	}
	if perr != nil {
		return vf.Errorf("ParseSVG rejects the SVG renderer's output: %v\n%s", perr, buf.String())
	}
	dashed, stroked := false, false
	for _, d := range c.Draws {
		if d.Stroke >= 0 {
			stroked = true
			if len(d.Dashes) > 0 {
				dashed = true
			}
		}
	}
	r.ClassIf(dashed, "dashed")
	if stroked && len(c.Draws) >= 2 {
		r.NonTrivial()
	}
	if math.Abs(back.W-c.W) > 1e-6*c.W || math.Abs(back.H-c.H) > 1e-6*c.H {
		return vf.Errorf("the canvas read back is %g x %g mm, the drawing is %g x %g mm", back.W, back.H, c.W, c.H)
	}
	var ref, got *image.RGBA
	if err := vf.Try("rasterizing", func() { ref = replay.Raster(cv, dpmm); got = replay.Raster(back, dpmm) }); err != nil {
		if geometryPanic(err) {
			r.Class("skipped:panic-in-path-geometry")
			return nil
		}
		return err
	}
	bad, worst, at := replay.Compare(ref, got, 64)
	npix := ref.Bounds().Dx() * ref.Bounds().Dy()
	limit := 8 + npix/600
	if bad > limit {
		return vf.Errorf("%d of %d pixels of the drawing read back from SVG differ from the drawing by more than 64/255 (allowed %d); worst %d/255 at pixel %v: drawing %v, read back %v\n%s", bad, npix, limit, worst, at, ref.RGBAAt(at.X, at.Y), got.RGBAAt(at.X, at.Y), buf.String())
	}
	return nil
}

func TestRoundTrip(t *testing.T) {
	vf.Run(t, vf.Prop[RCase]{Sub: "roundtrip", Gen: genR, Check: checkR, Cases: vf.N(1500, 15000)})
}
