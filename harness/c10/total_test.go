package c10

import (
	"fmt"
	"math"
	"time"

	"github.com/tdewolff/canvas"

	"verif/harness/oracle"
	"verif/harness/vf"
)

// snapshot copies the data including the spare capacity behind len.
func snapshot(p *canvas.Path) []float64 {
	d := p.Data()
	return append([]float64(nil), d[:cap(d)]...)
}

func unchanged(p *canvas.Path, snap []float64) (int, bool) {
	d := p.Data()
	full := d[:cap(d)]
	if len(full) != len(snap) {
		return -1, false
	}
	for i := range full {
		if full[i] != snap[i] && !(math.IsNaN(full[i]) && math.IsNaN(snap[i])) {
			return i, false
		}
	}
	return 0, true
}

type hang struct {
	Call string `json:"hanging_call"`
	Path string `json:"path"`
	Case Case   `json:"case"`
}

type call struct {
	name string
	pure bool // documented as returning a new path / being a query: receiver must be untouched
	f    func(p *canvas.Path)
}

func mustEqual(name string, got, want []float64) {
	for i := range want {
		if got[i] != want[i] {
			panic(fmt.Sprintf("%s modified the slice passed as its argument: %v, was %v", name, got, want))
		}
	}
}

func calls(rect *canvas.Path) []call {
	joiners := []canvas.Joiner{canvas.BevelJoin, canvas.RoundJoin, canvas.MiterJoin, canvas.MiterClipJoin, canvas.ArcsJoin, canvas.ArcsClipJoin}
	cappers := []canvas.Capper{canvas.ButtCap, canvas.RoundCap, canvas.SquareCap}
	cs := []call{
		{"Bounds", true, func(p *canvas.Path) { p.Bounds() }},
		{"FastBounds", true, func(p *canvas.Path) { p.FastBounds() }},
		{"Length", true, func(p *canvas.Path) { p.Length() }},
		{"Flatten", true, func(p *canvas.Path) { p.Flatten(0.1) }},
		{"ReplaceArcs", true, func(p *canvas.Path) { p.ReplaceArcs() }},
		{"XMonotone", true, func(p *canvas.Path) { p.XMonotone() }},
		{"Reverse", true, func(p *canvas.Path) { p.Reverse() }},
		{"Split", true, func(p *canvas.Path) {
			for _, s := range p.Split() {
				s.Closed()
			}
		}},
		{"Split+append to the subpaths", true, func(p *canvas.Path) {
			// subpaths returned by Split are independent: appending to one must not touch the path or its siblings
			for _, s := range p.Split() {
				s.QuadTo(1000, 2000, 3000, 1000)
			}
		}},
		{"SplitAt", true, func(p *canvas.Path) { l := p.Length(); p.SplitAt(l/3, 2*l/3) }},
		{"Dash", true, func(p *canvas.Path) { p.Dash(0.5, 2, 1) }},
		// slices handed to variadic parameters belong to the caller: they must come back unchanged
		{"Dash(slice with zeros)", true, func(p *canvas.Path) {
			d := []float64{0, 1, 2, 4}
			p.Dash(0.5, d...)
			mustEqual("Dash", d, []float64{0, 1, 2, 4})
			d = []float64{1, 2, 4, 0}
			p.Dash(0.5, d...)
			mustEqual("Dash", d, []float64{1, 2, 4, 0})
		}},
		{"Dash(odd sub-slice)", true, func(p *canvas.Path) {
			backing := []float64{2, 1, 3, 7, 8, 9}
			p.Dash(0, backing[:3]...)
			mustEqual("Dash", backing, []float64{2, 1, 3, 7, 8, 9})
		}},
		{"SplitAt(slice)", true, func(p *canvas.Path) {
			ts := []float64{3, 1, 2, 0.5}
			p.SplitAt(ts[:3]...)
			mustEqual("SplitAt", ts, []float64{3, 1, 2, 0.5})
		}},
		{"Copy", true, func(p *canvas.Path) { p.Copy() }},
		{"Closed/Len/Pos/StartPos", true, func(p *canvas.Path) { p.Closed(); p.Len(); p.Pos(); p.StartPos(); p.HasSubpaths(); p.Empty(); p.Flat() }},
		{"Coords/Segments/CoordDirections", true, func(p *canvas.Path) { p.Coords(); p.Segments(); p.CoordDirections() }},
		{"String/ToSVG/ToPDF/ToPS", true, func(p *canvas.Path) { _ = p.String(); p.ToSVG(); p.ToPDF(); p.ToPS() }},
		{"Scanner", true, func(p *canvas.Path) {
			for s := p.Scanner(); s.Scan(); {
				s.Cmd()
				s.Start()
				s.End()
				s.Values()
				if s.Cmd() == canvas.ArcToCmd {
					s.Arc()
				}
				if s.Cmd() == canvas.QuadToCmd || s.Cmd() == canvas.CubeToCmd {
					s.CP1()
				}
				if s.Cmd() == canvas.CubeToCmd {
					s.CP2()
				}
				s.Path()
			}
		}},
		{"ReverseScanner", true, func(p *canvas.Path) {
			for s := p.ReverseScanner(); s.Scan(); {
				s.Cmd()
				s.Start()
				s.End()
				s.Values()
				if s.Cmd() == canvas.ArcToCmd {
					s.Arc()
				}
				if s.Cmd() == canvas.QuadToCmd || s.Cmd() == canvas.CubeToCmd {
					s.CP1()
				}
				if s.Cmd() == canvas.CubeToCmd {
					s.CP2()
				}
				s.Path()
			}
		}},
		{"Transform(copy)", true, func(p *canvas.Path) { p.Copy().Transform(canvas.Identity.Rotate(30).Scale(2, 0.5)) }},
		{"Offset", true, func(p *canvas.Path) { p.Offset(0.5, 0.1) }},
		{"Settle", true, func(p *canvas.Path) { p.Settle(canvas.NonZero) }},
		{"And", true, func(p *canvas.Path) { p.And(rect) }},
		{"Or", true, func(p *canvas.Path) { p.Or(rect) }},
		{"Xor", true, func(p *canvas.Path) { p.Xor(rect) }},
		{"Not", true, func(p *canvas.Path) { p.Not(rect) }},
		{"rect.And(p)", true, func(p *canvas.Path) { rect.And(p) }},
	}
	for i, j := range joiners {
		cp := cappers[i%len(cappers)]
		jj := j
		cs = append(cs, call{"Stroke", true, func(p *canvas.Path) { p.Stroke(1.5, cp, jj, 0.1) }})
	}
	return cs
}

// totality: every query/derivation terminates without panicking and leaves receiver and arguments unchanged.
func totality(p *canvas.Path, r *vf.R, cs Case) error {
	if p.Empty() {
		return nil
	}
	segs, err := oracle.Decode(p.Data())
	if err != nil {
		return vf.Errorf("not decodable: %v", err)
	}
	hasOpen, spike := false, false
	closed := false
	n := 0
	for i, s := range segs {
		if s.Cmd == oracle.MoveTo {
			if i > 0 && !closed {
				hasOpen = true
			}
			closed = false
			n = 0
			continue
		}
		n++
		if s.Cmd == oracle.Close {
			closed = true
			if n <= 2 {
				spike = true
			}
		}
	}
	if !closed {
		hasOpen = true
	}
	_ = hasOpen
	for _, s := range segs {
		// arcs whose corrected radii are of the order 1e6 are millions of millimetres long: Dash(0.5, 2, 1)
		// legitimately returns millions of dashes and takes minutes. Such paths are built and validated but
		// the derivations are only exercised on paths of moderate size (domain bound of the harness).
		if s.Cmd == oracle.ArcTo && s.Args[0] > 1e4 {
			r.Class("very-long-arc(derivations skipped)")
			return nil
		}
	}
	rect := canvas.Rectangle(6, 6).Translate(-1, -2)
	rsnap := snapshot(rect)
	for _, c := range calls(rect) {
		snap := snapshot(p)
		var herr error
		err := vf.Try(c.name, func() {
			// a call that does not return within 30 s is a failure (hang); it is left running in its goroutine
			herr = vf.WatchdogErr(30*time.Second, func() { c.f(p) })
		})
		boolean := c.name == "And" || c.name == "Or" || c.name == "Xor" || c.name == "Not" || c.name == "rect.And(p)" || c.name == "Settle" || c.name == "Stroke" || c.name == "Offset"
		if err == nil && herr != nil {
			// (the call is left running in its goroutine; the shard goes on and reports)
			return vf.Errorf("%s on %v: %v", c.name, p, herr)
		}
		if err != nil {
			if boolean && r.Excluded("F01c", true) {
				// known finding of C01/C04: the sweep-line panics on some degenerate inputs; judged there
				continue
			}
			_ = spike
			return vf.Errorf("%s on %v: %v", c.name, p, err)
		}
		if c.pure {
			if i, ok := unchanged(p, snap); !ok {
				return vf.Errorf("%s modified its receiver %v (data index %d incl. spare capacity)", c.name, p, i)
			}
			if i, ok := unchanged(rect, rsnap); !ok {
				return vf.Errorf("%s modified its argument (data index %d)", c.name, i)
			}
		}
	}
	return nil
}
