package c10

import (
	"fmt"
	"math"
	"testing"

	"github.com/tdewolff/canvas"
	"pgregory.net/rapid"

	"verif/harness/gen"
	"verif/harness/oracle"
	"verif/harness/vf"
)

func TestMain(m *testing.M) { vf.Main(m, "C10") }

// Op is one construction call.
type Op struct {
	Name string       `json:"op"`
	A    []float64    `json:"a,omitempty"`
	Q    gen.PathSpec `json:"q,omitempty"` // operand of Join/Append
}

type Case struct {
	Ops []Op `json:"ops"`
}

func (c Case) String() string {
	s := ""
	for _, o := range c.Ops {
		s += o.Name
		if len(o.A) > 0 {
			s += fmt.Sprint(o.A)
		}
		if len(o.Q.Cmds) > 0 {
			s += "(" + o.Q.String() + ")"
		}
		s += " "
	}
	return s
}

func coordNear(t *rapid.T, prev []float64) float64 {
	// repeat an earlier coordinate often: repeated points, collinear continuations, reversals
	if len(prev) > 0 && rapid.IntRange(0, 2).Draw(t, "reuse") == 0 {
		return prev[rapid.IntRange(0, len(prev)-1).Draw(t, "pi")]
	}
	return gen.Coord(t, "c", -8, 8)
}

func genCase(t *rapid.T) Case {
	var c Case
	var xs, ys []float64
	pt := func() (float64, float64) {
		x, y := coordNear(t, xs), coordNear(t, ys)
		xs, ys = append(xs, x), append(ys, y)
		return x, y
	}
	n := rapid.IntRange(1, vf.N(20, 40)).Draw(t, "nops")
	for i := 0; i < n; i++ {
		switch k := rapid.IntRange(0, 15).Draw(t, "opkind"); {
		case k <= 1:
			x, y := pt()
			c.Ops = append(c.Ops, Op{Name: "MoveTo", A: []float64{x, y}})
		case k <= 5:
			x, y := pt()
			c.Ops = append(c.Ops, Op{Name: "LineTo", A: []float64{x, y}})
		case k == 6:
			x1, y1 := pt()
			x, y := pt()
			c.Ops = append(c.Ops, Op{Name: "QuadTo", A: []float64{x1, y1, x, y}})
		case k == 7:
			x1, y1 := pt()
			x2, y2 := pt()
			x, y := pt()
			c.Ops = append(c.Ops, Op{Name: "CubeTo", A: []float64{x1, y1, x2, y2, x, y}})
		case k == 8 || k == 9:
			x, y := pt()
			rx := float64(rapid.IntRange(-8, 80).Draw(t, "rx")) / 8 // zero and negative radii included
			ry := float64(rapid.IntRange(-8, 80).Draw(t, "ry")) / 8
			if rapid.IntRange(0, 9).Draw(t, "huge") == 0 {
				rx *= 1e6
			}
			rot := float64(rapid.IntRange(-800, 800).Draw(t, "rot"))
			l := float64(rapid.IntRange(0, 1).Draw(t, "l"))
			s := float64(rapid.IntRange(0, 1).Draw(t, "s"))
			c.Ops = append(c.Ops, Op{Name: "ArcTo", A: []float64{rx, ry, rot, l, s, x, y}})
		case k == 10:
			rx := float64(rapid.IntRange(1, 40).Draw(t, "rx")) / 8
			ry := float64(rapid.IntRange(1, 40).Draw(t, "ry")) / 8
			rot := float64(rapid.IntRange(-4, 4).Draw(t, "rot")) * 30
			t0 := float64(rapid.IntRange(-24, 24).Draw(t, "t0")) * 30
			t1 := float64(rapid.IntRange(-30, 30).Draw(t, "t1")) * 30
			c.Ops = append(c.Ops, Op{Name: "Arc", A: []float64{rx, ry, rot, t0, t1}})
		case k == 11 || k == 12:
			c.Ops = append(c.Ops, Op{Name: "Close"})
		case k == 13:
			o := gen.DefaultOpts()
			o.Lo, o.Hi, o.MaxSub, o.MaxSeg = -8, 8, 2, 3
			q := gen.Path(t, o)
			if rapid.Bool().Draw(t, "joinAtEnd") && len(q.Cmds) > 0 && len(xs) > 0 {
				// make q start where the path currently ends so that Join really joins
				q.Cmds[0].A = []float64{xs[len(xs)-1], ys[len(ys)-1]}
			}
			name := "Join"
			if rapid.Bool().Draw(t, "append") {
				name = "Append"
			}
			c.Ops = append(c.Ops, Op{Name: name, Q: q})
		case k == 14:
			kind := rapid.IntRange(0, 6).Draw(t, "shape")
			a := float64(rapid.IntRange(0, 40).Draw(t, "sa")) / 4
			b := float64(rapid.IntRange(0, 40).Draw(t, "sb")) / 4
			r := float64(rapid.IntRange(-8, 24).Draw(t, "sr")) / 4
			x, y := pt()
			c.Ops = append(c.Ops, Op{Name: "Shape", A: []float64{float64(kind), a, b, r, x, y}})
		default:
			if rapid.IntRange(0, 5).Draw(t, "reset") == 0 {
				c.Ops = append(c.Ops, Op{Name: "Reset"})
			} else {
				x, y := pt()
				c.Ops = append(c.Ops, Op{Name: "LineTo", A: []float64{x, y}})
			}
		}
	}
	return c
}

// ---------------- the model: requested geometry ----------------

type model struct {
	segs       []oracle.Seg
	cur, start oracle.Pt
	hasCur     bool // a current point exists
	closed     bool // the last command was a Close
	events     int  // normalisation events (dropped / converted / corrected)
}

func (m *model) begin() {
	if !m.hasCur {
		m.moveTo(oracle.Pt{})
	} else if m.closed {
		m.moveTo(m.start)
	}
}

func (m *model) moveTo(p oracle.Pt) {
	if n := len(m.segs); n > 0 && m.segs[n-1].Cmd == oracle.MoveTo {
		m.segs = m.segs[:n-1] // a MoveTo directly after a MoveTo replaces it
	}
	m.segs = append(m.segs, oracle.Seg{Cmd: oracle.MoveTo, P0: m.cur, Args: []float64{p.X, p.Y}})
	m.cur, m.start, m.hasCur, m.closed = p, p, true, false
}

func near(a, b oracle.Pt) bool { return math.Abs(a.X-b.X) <= 1e-10 && math.Abs(a.Y-b.Y) <= 1e-10 }

func (m *model) add(cmd float64, args ...float64) {
	m.begin()
	s := oracle.Seg{Cmd: cmd, P0: m.cur, Args: args}
	m.segs = append(m.segs, s)
	m.cur = s.End()
	m.closed = cmd == oracle.Close
}

func (m *model) apply(o Op) {
	a := o.A
	switch o.Name {
	case "MoveTo":
		m.moveTo(oracle.Pt{X: a[0], Y: a[1]})
	case "LineTo":
		p := oracle.Pt{X: a[0], Y: a[1]}
		if m.hasCur && !m.closed && near(p, m.cur) || !m.hasCur && near(p, oracle.Pt{}) || m.closed && near(p, m.start) {
			m.events++
			return
		}
		m.add(oracle.LineTo, a[0], a[1])
	case "QuadTo":
		cur := m.here()
		if near(oracle.Pt{X: a[0], Y: a[1]}, cur) && near(oracle.Pt{X: a[2], Y: a[3]}, cur) {
			m.events++
			return
		}
		m.add(oracle.QuadTo, a...)
	case "CubeTo":
		cur := m.here()
		if near(oracle.Pt{X: a[0], Y: a[1]}, cur) && near(oracle.Pt{X: a[2], Y: a[3]}, cur) && near(oracle.Pt{X: a[4], Y: a[5]}, cur) {
			m.events++
			return
		}
		m.add(oracle.CubeTo, a...)
	case "ArcTo":
		cur := m.here()
		end := oracle.Pt{X: a[5], Y: a[6]}
		if near(end, cur) {
			m.events++
			return
		}
		rx, ry := math.Abs(a[0]), math.Abs(a[1])
		if rx <= 1e-10 || ry <= 1e-10 {
			m.events++
			m.add(oracle.LineTo, a[5], a[6])
			return
		}
		flag := 0.0
		if a[3] != 0 {
			flag += 1
		}
		if a[4] != 0 {
			flag += 2
		}
		m.add(oracle.ArcTo, rx, ry, a[2]*math.Pi/180, flag, a[5], a[6])
	case "Close":
		if !m.hasCur || m.closed {
			return
		}
		// a subpath consisting of a MoveTo only is removed
		if len(m.segs) > 0 && m.segs[len(m.segs)-1].Cmd == oracle.MoveTo {
			m.segs = m.segs[:len(m.segs)-1]
			m.events++
			m.hasCur = len(m.segs) > 0
			if m.hasCur {
				m.cur = m.segs[len(m.segs)-1].End()
				m.closed = m.segs[len(m.segs)-1].Cmd == oracle.Close
				// start of the previous subpath
				for i := len(m.segs) - 1; i >= 0; i-- {
					if m.segs[i].Cmd == oracle.MoveTo {
						m.start = m.segs[i].End()
						break
					}
				}
			}
			return
		}
		m.add(oracle.Close, m.start.X, m.start.Y)
	case "Reset":
		*m = model{events: m.events}
	}
}

func (m *model) here() oracle.Pt {
	if !m.hasCur {
		return oracle.Pt{}
	}
	if m.closed {
		return m.start
	}
	return m.cur
}

// ---------------- well-formedness of the built path ----------------

func wellFormed(d []float64) ([]oracle.Seg, error) {
	segs, err := oracle.Decode(d)
	if err != nil {
		return nil, err
	}
	var start oracle.Pt
	prev := 0.0
	for i, s := range segs {
		for _, v := range s.Args {
			if math.IsNaN(v) || math.IsInf(v, 0) {
				return segs, fmt.Errorf("command %d has a non-finite value %v", i, v)
			}
		}
		if i == 0 && s.Cmd != oracle.MoveTo {
			return segs, fmt.Errorf("path does not start with MoveTo")
		}
		if prev == oracle.Close && s.Cmd != oracle.MoveTo {
			return segs, fmt.Errorf("command %d follows a Close without a MoveTo", i)
		}
		switch s.Cmd {
		case oracle.MoveTo:
			start = s.End()
		case oracle.Close:
			if s.End() != start {
				return segs, fmt.Errorf("Close at command %d goes to %v, the subpath starts at %v", i, s.End(), start)
			}
		case oracle.LineTo:
			if near(s.P0, s.End()) {
				return segs, fmt.Errorf("zero-length LineTo at command %d (%v)", i, s.End())
			}
		case oracle.QuadTo:
			if near(s.P0, s.End()) && near(s.P0, oracle.Pt{X: s.Args[0], Y: s.Args[1]}) {
				return segs, fmt.Errorf("zero-length QuadTo at command %d", i)
			}
		case oracle.CubeTo:
			if near(s.P0, s.End()) && near(s.P0, oracle.Pt{X: s.Args[0], Y: s.Args[1]}) && near(s.P0, oracle.Pt{X: s.Args[2], Y: s.Args[3]}) {
				return segs, fmt.Errorf("zero-length CubeTo at command %d", i)
			}
		case oracle.ArcTo:
			rx, ry, phi, fl := s.Args[0], s.Args[1], s.Args[2], s.Args[3]
			if !(rx >= ry-1e-9*rx && ry > 0) {
				return segs, fmt.Errorf("arc at command %d has radii rx=%v ry=%v (want rx >= ry > 0)", i, rx, ry)
			}
			if !(phi >= 0 && phi < math.Pi+1e-12) {
				return segs, fmt.Errorf("arc at command %d has rotation %v outside [0,pi)", i, phi)
			}
			if fl != 0 && fl != 1 && fl != 2 && fl != 3 {
				return segs, fmt.Errorf("arc at command %d has flag value %v", i, fl)
			}
			if near(s.P0, s.End()) {
				return segs, fmt.Errorf("zero-length ArcTo at command %d", i)
			}
			// radii large enough for the chord
			sp, cp := math.Sincos(phi)
			dx, dy := (s.P0.X-s.End().X)/2, (s.P0.Y-s.End().Y)/2
			x1, y1 := cp*dx+sp*dy, -sp*dx+cp*dy
			if l := x1*x1/(rx*rx) + y1*y1/(ry*ry); l > 1+1e-6 {
				return segs, fmt.Errorf("arc at command %d has radii too small for its chord (lambda^2 = %v)", i, l)
			}
		}
		prev = s.Cmd
	}
	return segs, nil
}

func drawn(segs []oracle.Seg) []oracle.Seg {
	var out []oracle.Seg
	for _, s := range segs {
		if s.Cmd != oracle.MoveTo {
			out = append(out, s)
		}
	}
	return out
}

func sameGeometry(what string, built, want []oracle.Seg) error {
	b, w := drawn(built), drawn(want)
	size := 1e-3
	for _, s := range w {
		size = math.Max(size, oracle.SegBounds(s, 16).Size())
	}
	if len(w) == 0 {
		if len(b) != 0 {
			return fmt.Errorf("%s: nothing was requested but the path has %d drawn segments", what, len(b))
		}
		return nil
	}
	tol := 1e-6 * size
	for i, s := range w {
		for k := 0; k <= 8; k++ {
			q := s.Eval(float64(k) / 8)
			if d := oracle.PathDist(b, q, 64); !(d <= tol) {
				return fmt.Errorf("%s: point %v of requested segment %d (cmd %v) is %g away from the built path", what, q, i, s.Cmd, d)
			}
		}
	}
	for i, s := range b {
		for k := 0; k <= 8; k++ {
			q := s.Eval(float64(k) / 8)
			if d := oracle.PathDist(w, q, 64); !(d <= tol) {
				return fmt.Errorf("%s: point %v of built segment %d (cmd %v) is %g away from the requested geometry", what, q, i, s.Cmd, d)
			}
		}
	}
	// same number of subpaths with the same closedness and end points
	type sub struct {
		closed     bool
		start, end oracle.Pt
		n          int
	}
	subs := func(segs []oracle.Seg) []sub {
		var out []sub
		for _, s := range segs {
			if s.Cmd == oracle.MoveTo {
				out = append(out, sub{start: s.End(), end: s.End()})
				continue
			}
			o := &out[len(out)-1]
			o.n++
			o.end = s.End()
			if s.Cmd == oracle.Close {
				o.closed = true
			}
		}
		var nz []sub
		for _, o := range out {
			if o.n > 0 {
				nz = append(nz, o)
			}
		}
		return nz
	}
	sb, sw := subs(built), subs(want)
	if len(sb) != len(sw) {
		return fmt.Errorf("%s: %d subpaths requested, the path has %d", what, len(sw), len(sb))
	}
	for i := range sb {
		if sb[i].closed != sw[i].closed || sb[i].start.Dist(sw[i].start) > tol || sb[i].end.Dist(sw[i].end) > tol {
			return fmt.Errorf("%s: subpath %d requested from %v to %v (closed=%v), built from %v to %v (closed=%v)", what, i, sw[i].start, sw[i].end, sw[i].closed, sb[i].start, sb[i].end, sb[i].closed)
		}
	}
	return nil
}

func shape(a []float64) (*canvas.Path, string) {
	switch int(a[0]) {
	case 0:
		return canvas.Rectangle(a[1], a[2]), "Rectangle"
	case 1:
		return canvas.RoundedRectangle(a[1], a[2], a[3]), "RoundedRectangle"
	case 2:
		return canvas.BeveledRectangle(a[1], a[2], a[3]), "BeveledRectangle"
	case 3:
		return canvas.Circle(a[1]), "Circle"
	case 4:
		return canvas.Ellipse(a[1], a[2]), "Ellipse"
	case 5:
		return canvas.StarPolygon(3+int(a[1])%5, a[2], math.Abs(a[3]), int(a[1])%2 == 0), "StarPolygon"
	default:
		nx, ny := 1+int(a[1]*4)%3, 1+int(a[2]*4)%3
		return canvas.Grid(a[1]+4, a[2]+4, nx, ny, 0.25+math.Abs(a[3])/8), "Grid"
	}
}

func checkShape(a []float64, sp *canvas.Path) error {
	segs, err := wellFormed(sp.Data())
	if err != nil {
		return err
	}
	if len(segs) == 0 {
		return nil
	}
	polys := oracle.Sample(segs, 64)
	b := oracle.Bounds(polys)
	switch int(a[0]) {
	case 0, 1, 2:
		w, h := a[1], a[2]
		if math.Abs(b.X0) > 1e-9 || math.Abs(b.Y0) > 1e-9 || math.Abs(b.X1-w) > 1e-9 || math.Abs(b.Y1-h) > 1e-9 {
			return fmt.Errorf("bounds %+v, want (0,0)-(%v,%v)", b, w, h)
		}
		if int(a[0]) == 0 && math.Abs(oracle.Area(polys)-w*h) > 1e-9*(1+w*h) {
			return fmt.Errorf("rectangle area %v, want %v", oracle.Area(polys), w*h)
		}
	case 6:
		w, h := a[1]+4, a[2]+4
		nx, ny := 1+int(a[1]*4)%3, 1+int(a[2]*4)%3
		rr := 0.25 + math.Abs(a[3])/8
		if w <= float64(nx+1)*rr || h <= float64(ny+1)*rr {
			return nil
		}
		dx, dy := (w-float64(nx+1)*rr)/float64(nx), (h-float64(ny+1)*rr)/float64(ny)
		if math.Abs(b.X0) > 1e-9 || math.Abs(b.Y0) > 1e-9 || math.Abs(b.X1-w) > 1e-9 || math.Abs(b.Y1-h) > 1e-9 {
			return fmt.Errorf("grid bounds %+v, want (0,0)-(%v,%v)", b, w, h)
		}
		// the grid lines cover w*h minus the nx*ny holes; holes are wound oppositely
		want := w*h - float64(nx*ny)*dx*dy
		if got := oracle.Area(polys); math.Abs(got-want) > 1e-9*(1+want) {
			return fmt.Errorf("grid signed area %v, want %v (w=%v h=%v nx=%d ny=%d r=%v)", got, want, w, h, nx, ny, rr)
		}
		// the centre of every cell is a hole, the middle of every inner grid line is covered
		for j := 0; j < ny; j++ {
			for i := 0; i < nx; i++ {
				c := oracle.Pt{X: rr + float64(i)*(rr+dx) + dx/2, Y: rr + float64(j)*(rr+dy) + dy/2}
				if wn, _ := oracle.Winding(polys, c); wn != 0 {
					return fmt.Errorf("grid cell (%d,%d) centre %v is covered (winding %d)", i, j, c, wn)
				}
				l := oracle.Pt{X: float64(i)*(rr+dx) + rr/2, Y: c.Y}
				if wn, _ := oracle.Winding(polys, l); wn == 0 {
					return fmt.Errorf("grid line left of cell (%d,%d) at %v is not covered", i, j, l)
				}
			}
		}
	case 3, 4:
		rx, ry := a[1], a[2]
		if int(a[0]) == 3 {
			ry = rx
		}
		for _, pl := range polys {
			for _, p := range pl.P {
				if v := p.X*p.X/(rx*rx) + p.Y*p.Y/(ry*ry); math.Abs(v-1) > 1e-9 {
					return fmt.Errorf("point %v is not on the ellipse (%v,%v)", p, rx, ry)
				}
			}
		}
		if ar := oracle.Area(oracle.Sample(segs, 2000)); math.Abs(ar-math.Pi*rx*ry) > 1e-4*math.Pi*rx*ry {
			return fmt.Errorf("ellipse area %v, want %v", ar, math.Pi*rx*ry)
		}
	}
	return nil
}

func checkBuild(c Case, r *vf.R) error {
	p := &canvas.Path{}
	m := &model{}
	for step, o := range c.Ops {
		var err error
		switch o.Name {
		case "MoveTo":
			err = vf.Try(o.Name, func() { p.MoveTo(o.A[0], o.A[1]) })
			m.apply(o)
		case "LineTo":
			err = vf.Try(o.Name, func() { p.LineTo(o.A[0], o.A[1]) })
			m.apply(o)
		case "QuadTo":
			err = vf.Try(o.Name, func() { p.QuadTo(o.A[0], o.A[1], o.A[2], o.A[3]) })
			m.apply(o)
		case "CubeTo":
			err = vf.Try(o.Name, func() { p.CubeTo(o.A[0], o.A[1], o.A[2], o.A[3], o.A[4], o.A[5]) })
			m.apply(o)
		case "ArcTo":
			err = vf.Try(o.Name, func() { p.ArcTo(o.A[0], o.A[1], o.A[2], o.A[3] != 0, o.A[4] != 0, o.A[5], o.A[6]) })
			m.apply(o)
		case "Arc":
			err = vf.Try(o.Name, func() { p.Arc(o.A[0], o.A[1], o.A[2], o.A[3], o.A[4]) })
			// model: points of the ellipse parametrised from theta0 to theta1 starting at the current point
			a := o.A
			cur := m.here()
			phi := a[2] * math.Pi / 180
			t0, t1 := a[3]*math.Pi/180, a[4]*math.Pi/180
			ep := func(th float64) oracle.Pt {
				sp, cp := math.Sincos(phi)
				st, ct := math.Sincos(th)
				return oracle.Pt{X: a[0]*ct*cp - a[1]*st*sp, Y: a[0]*ct*sp + a[1]*st*cp}
			}
			centre := cur.Sub(ep(t0))
			d := t1 - t0
			if math.Abs(d) < 1e-12 {
				break
			}
			if math.Abs(d) > 2*math.Pi {
				// one full turn plus the remainder: as a point set the whole ellipse; it ends at theta1
				d = math.Copysign(2*math.Pi+math.Mod(math.Abs(d), 2*math.Pi), d)
			}
			// approximate the requested arc by short exact arcs of at most 90 degrees in the model
			nn := int(math.Ceil(math.Abs(d) / (math.Pi / 2)))
			flag := 0.0
			if d > 0 {
				flag = 2
			}
			rx, ry, ph := a[0], a[1], phi
			for k := 1; k <= nn; k++ {
				e := centre.Add(ep(t0 + d*float64(k)/float64(nn)))
				if near(e, m.here()) {
					continue
				}
				m.add(oracle.ArcTo, rx, ry, ph, flag, e.X, e.Y)
			}
		case "Close":
			err = vf.Try(o.Name, func() { p.Close() })
			m.apply(o)
		case "Reset":
			err = vf.Try(o.Name, func() { p.Reset() })
			m.apply(o)
		case "Join", "Append":
			q := o.Q.Build()
			qd := append([]float64(nil), q.Data()...)
			qsegs, qerr := wellFormed(qd)
			if qerr != nil {
				return vf.Errorf("operand of %s is ill-formed: %v", o.Name, qerr)
			}
			before := append([]float64(nil), p.Data()...)
			err = vf.Try(o.Name, func() {
				if o.Name == "Join" {
					p = p.Join(q)
				} else {
					p = p.Append(q)
				}
			})
			for i, v := range q.Data() {
				if i < len(qd) && v != qd[i] && len(before) > 0 {
					return vf.Errorf("step %d: %s modified its argument at index %d", step, o.Name, i)
				}
			}
			// model: Join continues the current subpath when q starts at the current point of an open path
			joins := o.Name == "Join" && m.hasCur && !m.closed && len(qsegs) > 0 && near(qsegs[0].End(), m.cur)
			for i, s := range qsegs {
				if i == 0 && joins {
					continue
				}
				switch s.Cmd {
				case oracle.MoveTo:
					m.moveTo(s.End())
				case oracle.Close:
					m.add(oracle.Close, m.start.X, m.start.Y)
				default:
					// q's own coordinates; a joined Close returns to the start of the joined subpath
					if near(s.End(), m.here()) && !s.Curved() {
						continue
					}
					m.add(s.Cmd, s.Args...)
				}
			}
		case "Shape":
			sp, name := shape(o.A)
			if serr := checkShape(o.A, sp); serr != nil {
				return vf.Errorf("step %d: %s%v: %v", step, name, o.A[1:4], serr)
			}
			spd := sp.Data()
			ssegs, _ := oracle.Decode(spd)
			tr := sp.Copy().Translate(o.A[4], o.A[5])
			err = vf.Try("Append(shape)", func() { p = p.Append(tr) })
			for _, s := range ssegs {
				args := append([]float64(nil), s.Args...)
				n := len(args)
				switch s.Cmd {
				case oracle.ArcTo:
					args[4] += o.A[4]
					args[5] += o.A[5]
				default:
					for k := 0; k+1 < n; k += 2 {
						args[k] += o.A[4]
						args[k+1] += o.A[5]
					}
				}
				if s.Cmd == oracle.MoveTo {
					m.moveTo(oracle.Pt{X: args[0], Y: args[1]})
				} else {
					m.add(s.Cmd, args...)
				}
			}
		}
		if err != nil {
			return vf.Errorf("step %d: %v", step, err)
		}
		built, werr := wellFormed(p.Data())
		if werr != nil {
			return vf.Errorf("after step %d (%s): path %v is ill-formed: %v", step, o.Name, p.Data(), werr)
		}
		if gerr := sameGeometry(fmt.Sprintf("after step %d (%s)", step, o.Name), built, m.segs); gerr != nil {
			return vf.Errorf("%v\n built: %v", gerr, p)
		}
	}
	if len(c.Ops) >= 4 && m.events > 0 {
		r.NonTrivial()
	}
	r.ClassIf(m.events > 0, "normalisation-event")
	return totality(p, r, c)
}

func TestBuild(t *testing.T) {
	vf.Run(t, vf.Prop[Case]{Sub: "build", Gen: genCase, Check: checkBuild, Cases: vf.N(300, 2500)})
}

// ---------------- arbitrary float64 arguments: builder calls must not panic ----------------

type NCase struct {
	Ops []Op `json:"ops"`
}

var special = []float64{math.NaN(), math.Inf(1), math.Inf(-1), 1e308, -1e308, 5e-324, 1e-300, 0, -0.0, 1, -1, 1e10}

type jf float64 // JSON cannot carry NaN/Inf: encode specials by index

func genN(t *rapid.T) NCase {
	var c NCase
	val := func() float64 {
		if rapid.IntRange(0, 2).Draw(t, "sp") == 0 {
			return float64(rapid.IntRange(0, len(special)-1).Draw(t, "si")) + 1e6 // marker: 1e6+i -> special[i]
		}
		return gen.Coord(t, "v", -8, 8)
	}
	n := rapid.IntRange(1, 12).Draw(t, "n")
	names := []string{"MoveTo", "LineTo", "QuadTo", "CubeTo", "ArcTo", "Arc", "Close"}
	arity := map[string]int{"MoveTo": 2, "LineTo": 2, "QuadTo": 4, "CubeTo": 6, "ArcTo": 7, "Arc": 5, "Close": 0}
	for i := 0; i < n; i++ {
		name := names[rapid.IntRange(0, len(names)-1).Draw(t, "name")]
		o := Op{Name: name}
		for k := 0; k < arity[name]; k++ {
			o.A = append(o.A, val())
		}
		c.Ops = append(c.Ops, o)
	}
	return c
}

func decodeSpecial(v float64) float64 {
	if v >= 1e6 && v < 1e6+float64(len(special)) {
		return special[int(v-1e6)]
	}
	return v
}

func checkN(c NCase, r *vf.R) error {
	p := &canvas.Path{}
	nonfinite := false
	for step, o := range c.Ops {
		a := make([]float64, len(o.A))
		for i, v := range o.A {
			a[i] = decodeSpecial(v)
			if math.IsNaN(a[i]) || math.IsInf(a[i], 0) || math.Abs(a[i]) > 1e300 {
				nonfinite = true
			}
		}
		err := vf.Try(o.Name, func() {
			switch o.Name {
			case "MoveTo":
				p.MoveTo(a[0], a[1])
			case "LineTo":
				p.LineTo(a[0], a[1])
			case "QuadTo":
				p.QuadTo(a[0], a[1], a[2], a[3])
			case "CubeTo":
				p.CubeTo(a[0], a[1], a[2], a[3], a[4], a[5])
			case "ArcTo":
				p.ArcTo(a[0], a[1], a[2], a[3] > 0, a[4] > 0, a[5], a[6])
			case "Arc":
				p.Arc(a[0], a[1], a[2], a[3], a[4])
			case "Close":
				p.Close()
			}
		})
		if err != nil {
			return vf.Errorf("step %d %s%v: %v", step, o.Name, a, err)
		}
		if _, derr := oracle.Decode(p.Data()); derr != nil {
			return vf.Errorf("after step %d %s%v the data stream is not decodable: %v", step, o.Name, a, derr)
		}
	}
	if nonfinite {
		r.NonTrivial()
	}
	return nil
}

func TestNonFinite(t *testing.T) {
	vf.Run(t, vf.Prop[NCase]{Sub: "nonfinite", Gen: genN, Check: checkN, Cases: vf.N(5000, 100000)})
}
