package geo

import (
	"math"

	"verif/harness/oracle"
)

// Cond is the conditioning of a Bézier segment as measured for property C03: ratio of minimal to maximal speed,
// shortest leg of the control polygon (and the chord) relative to its length, smallest sine between consecutive legs.
type Cond struct {
	SR, MinLeg, MinSin float64
}

func Conditioning(s oracle.Seg) Cond {
	var cps []oracle.Pt
	cps = append(cps, s.P0)
	for i := 0; i+1 < len(s.Args); i += 2 {
		cps = append(cps, oracle.Pt{X: s.Args[i], Y: s.Args[i+1]})
	}
	L := 0.0
	var legs []oracle.Pt
	for i := 1; i < len(cps); i++ {
		d := cps[i].Sub(cps[i-1])
		legs = append(legs, d)
		L += d.Len()
	}
	c := Cond{MinLeg: math.Inf(1), MinSin: math.Inf(1)}
	for _, d := range legs {
		c.MinLeg = math.Min(c.MinLeg, d.Len()/L)
	}
	for i := 1; i < len(legs); i++ {
		a, b := legs[i-1], legs[i]
		c.MinSin = math.Min(c.MinSin, math.Abs(a.Cross(b))/(a.Len()*b.Len()+1e-300))
	}
	c.MinLeg = math.Min(c.MinLeg, cps[len(cps)-1].Dist(cps[0])/L)
	mn, mx := math.Inf(1), 0.0
	const N = 1000
	prev := s.Eval(0)
	for i := 1; i <= N; i++ {
		q := s.Eval(float64(i) / N)
		v := q.Dist(prev)
		mn, mx = math.Min(mn, v), math.Max(mx, v)
		prev = q
	}
	c.SR = mn / mx
	return c
}

// FlattenBound returns the distance by which the library's flattening of the curved segment s at tolerance t may
// deviate from s according to the bounds that property C03 enforces (c03/prop_test.go): circular arcs 1.5 t,
// elliptical arcs 6 t or 20 t plus the arc->cubic floor of 3e-3 rx, well-conditioned quadratic/cubic Béziers 2.2 t / 7 t,
// generic ones 40 t. For the segments C03 files under its open findings (collinear control polygons: F03a; near-cusps,
// vanishing legs, needle ellipses: F03b) it returns the generic bound and the finding's id.
func FlattenBound(s oracle.Seg, t float64) (bound float64, finding string) {
	if !s.Curved() {
		return 0, ""
	}
	size := oracle.SegBounds(s, 64).Size()
	rel := t / math.Max(size, 1e-300)
	if s.Cmd == oracle.ArcTo {
		rx, ry := s.Args[0], s.Args[1]
		if math.Abs(rx-ry) <= 1e-10 {
			return 1.5*t + 1e-9*size, ""
		}
		floor := 3e-3 * math.Max(rx, ry)
		ecc := math.Min(rx, ry) / math.Max(rx, ry)
		switch {
		case ecc >= 0.25 && rel <= 0.01:
			return 6*t + floor, ""
		case ecc >= 0.05:
			return 20*t + floor, ""
		}
		return 20*t + floor, "F03b"
	}
	cd := Conditioning(s)
	switch {
	case cd.SR >= 0.25 && cd.MinLeg >= 0.05 && cd.MinSin >= 0.1 && rel <= 0.01:
		if s.Cmd == oracle.CubeTo {
			return 7 * t, ""
		}
		return 2.2 * t, ""
	case cd.SR >= 0.08 && cd.MinLeg >= 0.03 && cd.MinSin >= 0.03:
		return 40 * t, ""
	case cd.MinSin < 1e-6:
		return 40 * t, "F03a"
	}
	return 40 * t, "F03b"
}

// MinRadius returns the smallest radius of curvature along the curved segments (+Inf if there are none), from the
// circle through three consecutive samples.
func MinRadius(segs []oracle.Seg) float64 {
	r := math.Inf(1)
	for _, s := range segs {
		if !s.Curved() {
			continue
		}
		const n = 200
		for i := 1; i < n; i++ {
			p0, p1, p2 := s.Eval(float64(i-1)/n), s.Eval(float64(i)/n), s.Eval(float64(i+1)/n)
			a, b, c := p0.Dist(p1), p1.Dist(p2), p0.Dist(p2)
			area := math.Abs(p1.Sub(p0).Cross(p2.Sub(p0))) / 2
			if area > 1e-14 {
				r = math.Min(r, a*b*c/(4*area))
			}
		}
	}
	return r
}
