// Package geo holds comparison helpers on decoded paths shared by several property packages.
package geo

import (
	"fmt"
	"math"

	"verif/harness/oracle"
)

// Drawn filters out MoveTo records.
func Drawn(segs []oracle.Seg) []oracle.Seg {
	var out []oracle.Seg
	for _, s := range segs {
		if s.Cmd != oracle.MoveTo {
			out = append(out, s)
		}
	}
	return out
}

// Size is the largest extent of the segments (at least min).
func Size(segs []oracle.Seg, min float64) float64 {
	b := oracle.EmptyBox()
	any := false
	for _, s := range segs {
		if s.Cmd == oracle.MoveTo {
			continue
		}
		sb := oracle.SegBounds(s, 16)
		b = b.Extend(oracle.Pt{X: sb.X0, Y: sb.Y0}).Extend(oracle.Pt{X: sb.X1, Y: sb.Y1})
		any = true
	}
	if !any {
		return min
	}
	return math.Max(b.Size(), min)
}

// Sub describes one subpath.
type Sub struct {
	Closed     bool
	Start, End oracle.Pt
	N          int
	Segs       []oracle.Seg
}

// Subs splits into subpaths that draw something.
func Subs(segs []oracle.Seg) []Sub {
	var out []Sub
	for _, s := range segs {
		if s.Cmd == oracle.MoveTo {
			out = append(out, Sub{Start: s.End(), End: s.End()})
			continue
		}
		if len(out) == 0 {
			out = append(out, Sub{Start: s.P0, End: s.P0})
		}
		o := &out[len(out)-1]
		o.N++
		o.End = s.End()
		o.Segs = append(o.Segs, s)
		if s.Cmd == oracle.Close {
			o.Closed = true
		}
	}
	var nz []Sub
	for _, o := range out {
		if o.N > 0 {
			nz = append(nz, o)
		}
	}
	return nz
}

// SameGeometry compares two decoded paths: two-sided refined Hausdorff distance <= tol, same number of
// drawing subpaths with the same closedness and end points (within tol).
func SameGeometry(what string, got, want []oracle.Seg, tol float64) error {
	g, w := Drawn(got), Drawn(want)
	if len(w) == 0 || len(g) == 0 {
		if len(w) != len(g) {
			// zero-length leftovers are tolerated
			tot := 0.0
			for _, s := range append(g, w...) {
				tot += oracle.SegLength(s, 16)
			}
			if tot > tol {
				return fmt.Errorf("%s: one side draws nothing, the other %d/%d segments", what, len(g), len(w))
			}
		}
		return nil
	}
	for i, s := range w {
		if oracle.SegLength(s, 8) <= tol {
			continue // zero-length leftovers (e.g. "M x y z") draw nothing
		}
		for k := 0; k <= 8; k++ {
			q := s.Eval(float64(k) / 8)
			if d := oracle.PathDist(g, q, 64); !(d <= tol) {
				return fmt.Errorf("%s: point %v of expected segment %d (cmd %v) is %g away from the actual path (tol %g)", what, q, i, s.Cmd, d, tol)
			}
		}
	}
	for i, s := range g {
		if oracle.SegLength(s, 8) <= tol {
			continue
		}
		for k := 0; k <= 8; k++ {
			q := s.Eval(float64(k) / 8)
			if d := oracle.PathDist(w, q, 64); !(d <= tol) {
				return fmt.Errorf("%s: point %v of actual segment %d (cmd %v) is %g away from the expected geometry (tol %g)", what, q, i, s.Cmd, d, tol)
			}
		}
	}
	sg, sw := Subs(got), Subs(want)
	// subpaths are matched in order; a subpath whose length is within a few tolerances may be missing on either side
	// (a fixed cut-off at the tolerance itself would flip for a subpath of just that length)
	length := func(s Sub) float64 {
		l := 0.0
		for _, x := range s.Segs {
			l += oracle.SegLength(x, 16)
		}
		return l
	}
	match := func(a, b Sub) bool {
		return a.Closed == b.Closed && a.Start.Dist(b.Start) <= tol && a.End.Dist(b.End) <= tol
	}
	// subpaths that are clearly negligible go first (otherwise an empty subpath could be matched with a real one that
	// starts and ends in the same point)
	drop := func(in []Sub) []Sub {
		var out []Sub
		for _, x := range in {
			if length(x) > tol/4 {
				out = append(out, x)
			}
		}
		return out
	}
	sg, sw = drop(sg), drop(sw)
	i, j := 0, 0
	for i < len(sg) || j < len(sw) {
		switch {
		case i < len(sg) && j < len(sw) && match(sg[i], sw[j]):
			i++
			j++
		case i < len(sg) && length(sg[i]) <= 4*tol:
			i++
		case j < len(sw) && length(sw[j]) <= 4*tol:
			j++
		case i < len(sg) && j < len(sw):
			return fmt.Errorf("%s: subpath %d expected from %v to %v (closed=%v), found from %v to %v (closed=%v)", what, j, sw[j].Start, sw[j].End, sw[j].Closed, sg[i].Start, sg[i].End, sg[i].Closed)
		default:
			return fmt.Errorf("%s: %d subpaths expected, %d found", what, len(sw), len(sg))
		}
	}
	return nil
}

// Builder accumulates oracle segments from absolute drawing commands (an independent path model).
type Builder struct {
	Segs       []oracle.Seg
	Cur, Start oracle.Pt
	HasCur     bool
}

func (b *Builder) MoveTo(x, y float64) {
	b.Segs = append(b.Segs, oracle.Seg{Cmd: oracle.MoveTo, P0: b.Cur, Args: []float64{x, y}})
	b.Cur, b.Start, b.HasCur = oracle.Pt{X: x, Y: y}, oracle.Pt{X: x, Y: y}, true
}

func (b *Builder) add(cmd float64, args ...float64) {
	if !b.HasCur {
		b.MoveTo(0, 0)
	}
	s := oracle.Seg{Cmd: cmd, P0: b.Cur, Args: args}
	b.Segs = append(b.Segs, s)
	b.Cur = s.End()
}
func (b *Builder) LineTo(x, y float64)         { b.add(oracle.LineTo, x, y) }
func (b *Builder) QuadTo(a, c, x, y float64)   { b.add(oracle.QuadTo, a, c, x, y) }
func (b *Builder) CubeTo(a, c, d, e, x, y float64) { b.add(oracle.CubeTo, a, c, d, e, x, y) }

// ArcTo with rotation in degrees and SVG flags; zero radii give a line, coincident end points nothing.
func (b *Builder) ArcTo(rx, ry, rotDeg float64, large, sweep bool, x, y float64) {
	if !b.HasCur {
		b.MoveTo(0, 0)
	}
	if b.Cur.Dist(oracle.Pt{X: x, Y: y}) == 0 {
		return
	}
	rx, ry = math.Abs(rx), math.Abs(ry)
	if rx == 0 || ry == 0 {
		b.LineTo(x, y)
		return
	}
	f := 0.0
	if large {
		f += 1
	}
	if sweep {
		f += 2
	}
	b.add(oracle.ArcTo, rx, ry, rotDeg*math.Pi/180, f, x, y)
}

// Close closes the current subpath; the next drawing command starts a new subpath at the same start.
func (b *Builder) Close() {
	if !b.HasCur {
		return
	}
	b.add(oracle.Close, b.Start.X, b.Start.Y)
}

// AfterClose must be called before a drawing command that follows a Close without MoveTo.
func (b *Builder) ReopenIfClosed() {
	if n := len(b.Segs); n > 0 && b.Segs[n-1].Cmd == oracle.Close {
		b.MoveTo(b.Start.X, b.Start.Y)
	}
}
