package c16

import (
	"math"
	"sort"
	"strings"
	"sync"
	"testing"
	"unicode"

	"github.com/tdewolff/canvas"
	"pgregory.net/rapid"

	"verif/harness/vf"
)

func TestMain(m *testing.M) { vf.Main(m, "C16") }

type Run struct {
	Text string `json:"text"`
	Face int    `json:"face"`
}

type Case struct {
	Runs        []Run   `json:"runs"`
	Width       float64 `json:"width"`
	HAlign      int     `json:"halign"` // 0 left 1 right 2 center 3 justify
	VAlign      int     `json:"valign"`
	Indent      float64 `json:"indent"`
	LineStretch float64 `json:"line_stretch"`
}

var (
	fontsOnce sync.Once
	faces     []*canvas.FontFace
	fontErr   error
)

func loadFaces() ([]*canvas.FontFace, error) {
	fontsOnce.Do(func() {
		dejavu, err := canvas.LoadFontFile("/repo/resources/DejaVuSerif.ttf", canvas.FontRegular)
		if err != nil {
			fontErr = err
			return
		}
		garamond, err := canvas.LoadFontFile("/repo/resources/EBGaramond12-Regular.otf", canvas.FontRegular)
		if err != nil {
			fontErr = err
			return
		}
		faces = []*canvas.FontFace{dejavu.Face(12, canvas.Black), garamond.Face(10, canvas.Black), dejavu.Face(20, canvas.Black)}
	})
	return faces, fontErr
}

var words = []string{"a", "in", "the", "olden", "times", "wish­ing", "beau­ti­ful", "daugh­ters", "king", "x", "for­est", "foun­tain", "play­thing", "well-known", "42", "3.14", "(sun)", "it­self,", "warm;", "no break", "zero​width", "Tel", "WAVE", "fi", "office", "end.", "(yes!)", "N.B.", "so:", "why?", "em quad"}
var rtlWords = []string{"שלום", "עולם", "مرحبا"}

func genCase(t *rapid.T) Case {
	var c Case
	nruns := rapid.IntRange(1, 3).Draw(t, "nruns")
	rtl := rapid.IntRange(0, 5).Draw(t, "rtl") == 0
	for r := 0; r < nruns; r++ {
		var sb strings.Builder
		n := rapid.IntRange(1, 14).Draw(t, "nwords")
		for i := 0; i < n; i++ {
			if rtl && rapid.IntRange(0, 3).Draw(t, "isrtl") == 0 {
				sb.WriteString(rtlWords[rapid.IntRange(0, len(rtlWords)-1).Draw(t, "rw")])
			} else {
				sb.WriteString(words[rapid.IntRange(0, len(words)-1).Draw(t, "w")])
			}
			if i+1 < n || r+1 < nruns {
				switch rapid.IntRange(0, 14).Draw(t, "sep") {
				case 0:
					sb.WriteString("\n")
				case 1:
					sb.WriteString("  ") // wrap inside a run of spaces
				case 2:
					sb.WriteString("\n ") // space-indented line
				case 3:
					sb.WriteString("　") // ideographic space
				case 4:
					sb.WriteString("\r\n")
				case 5:
					sb.WriteString(" \n")
				default:
					sb.WriteString(" ")
				}
			}
		}
		c.Runs = append(c.Runs, Run{Text: sb.String(), Face: rapid.IntRange(0, 2).Draw(t, "face")})
	}
	c.Width = float64(rapid.IntRange(0, 40).Draw(t, "width")) * 3
	if rapid.IntRange(0, 9).Draw(t, "w0") == 0 {
		c.Width = 0
	}
	c.HAlign = rapid.IntRange(0, 3).Draw(t, "halign")
	c.VAlign = rapid.IntRange(0, 2).Draw(t, "valign")
	if rapid.IntRange(0, 3).Draw(t, "ind") == 0 {
		c.Indent = float64(rapid.IntRange(1, 8).Draw(t, "indent"))
	}
	c.LineStretch = []float64{0, 0, 0.2, 0.5}[rapid.IntRange(0, 3).Draw(t, "ls")]
	return c
}

var haligns = []canvas.TextAlign{canvas.Left, canvas.Right, canvas.Center, canvas.Justify}
var valigns = []canvas.TextAlign{canvas.Top, canvas.Center, canvas.Bottom}

func visible(s string) string {
	var sb strings.Builder
	for _, r := range s {
		if unicode.IsSpace(r) || r == '­' || r == '​' || r == '-' || r == '　' {
			continue
		}
		sb.WriteRune(r)
	}
	return sb.String()
}

func hasRTL(s string) bool {
	for _, r := range s {
		if unicode.Is(unicode.Hebrew, r) || unicode.Is(unicode.Arabic, r) {
			return true
		}
	}
	return false
}

type ln struct {
	y     float64
	spans []canvas.TextSpan
}

func checkCase(c Case, r *vf.R) error {
	fs, err := loadFaces()
	if err != nil {
		return vf.Errorf("fonts: %v", err)
	}
	rt := canvas.NewRichText(fs[c.Runs[0].Face])
	input := ""
	for _, run := range c.Runs {
		rt.WriteFace(fs[run.Face], run.Text)
		input += run.Text
	}
	var txt *canvas.Text
	if perr := vf.Try("ToText", func() { txt = rt.ToText(c.Width, 0, haligns[c.HAlign], valigns[c.VAlign], c.Indent, c.LineStretch) }); perr != nil {
		return perr
	}
	var lines []ln
	txt.WalkLines(func(y float64, spans []canvas.TextSpan) {
		lines = append(lines, ln{y, append([]canvas.TextSpan(nil), spans...)})
	})
	rtl := hasRTL(input)
	r.ClassIf(rtl, "has-rtl")
	r.Class("halign:" + haligns[c.HAlign].String())
	// 1. every character exactly once, in logical order (visual order for left-to-right text)
	var out strings.Builder
	hyphensOut := 0
	for _, l := range lines {
		// spans are listed in logical order; their positions are in visual order (checked below)
		for _, s := range l.spans {
			if s.IsText() {
				out.WriteString(s.Text)
				hyphensOut += strings.Count(s.Text, "-")
			}
		}
	}
	got, want := visible(out.String()), visible(input)
	if got != want {
		return vf.Errorf("laid out characters %q, input characters %q (input %q, width %v, align %v)", got, want, input, c.Width, haligns[c.HAlign])
	}
	softBreaks := hyphensOut - strings.Count(input, "-")
	if softBreaks < 0 || softBreaks > strings.Count(input, "­") {
		return vf.Errorf("%d hyphens laid out, input has %d hyphens and %d soft hyphens", hyphensOut, strings.Count(input, "-"), strings.Count(input, "­"))
	}
	faceChange := false
	for i := 1; i < len(c.Runs); i++ {
		if c.Runs[i].Face != c.Runs[0].Face {
			faceChange = true
		}
	}
	if len(lines) >= 2 && (softBreaks > 0 || rtl || faceChange) {
		r.NonTrivial()
	}
	r.ClassIf(softBreaks > 0, "soft-hyphen-break")
	r.ClassIf(len(lines) >= 2, "multi-line")
	// explicit newlines always start a new line
	if nl := strings.Count(strings.TrimRight(strings.ReplaceAll(input, "\r\n", "\n"), "\n "), "\n"); len(lines) < nl+1 && strings.TrimSpace(input) != "" {
		return vf.Errorf("%d lines for a text with %d explicit line breaks: %q", len(lines), nl, input)
	}
	// 2. lines stacked monotonically downwards by at least a fraction of the smallest font size
	for i := 1; i < len(lines); i++ {
		if !(lines[i].y < lines[i-1].y-1.0) {
			return vf.Errorf("line %d at y=%v does not lie below line %d at y=%v", i, lines[i].y, i-1, lines[i-1].y)
		}
	}
	b := txt.Bounds()
	var paraLast []int
	if !rtl {
		paraLast = paragraphEnds(input, lines)
	}
	anchor0 := math.NaN() // common right edge / centre of the lines of a text without box width
	for li, l := range lines {
		// visual order: the spans of a line are given in logical order with their embedding levels; from the highest level down to 1 every maximal sequence of spans at that level or higher is reversed (UAX #9, L2), and the spans abut from the left-most position in that order
		if err := checkVisualOrder(li, l.spans, input, r); err != nil {
			return err
		}
		sp := append([]canvas.TextSpan(nil), l.spans...)
		sort.SliceStable(sp, func(i, j int) bool { return sp[i].X < sp[j].X })
		// 3. spans do not overlap
		for k := 1; k < len(sp); k++ {
			if sp[k].X < sp[k-1].X+sp[k-1].Width-1e-6 {
				return vf.Errorf("line %d: span %q at x=%v overlaps span %q ending at %v", li, sp[k].Text, sp[k].X, sp[k-1].Text, sp[k-1].X+sp[k-1].Width)
			}
		}
		if len(sp) == 0 {
			continue
		}
		left, right := sp[0].X, sp[len(sp)-1].X+sp[len(sp)-1].Width
		// glue of justified lines is adjusted in whole font units per space glyph: half a unit of rounding each
		jtol := 1e-6
		if c.HAlign == 3 {
			for _, s := range sp {
				for _, g := range s.Glyphs {
					if isSpace(g.Text) {
						jtol += 0.5 * s.Face.MmPerEm
					}
				}
			}
		}
		// 4. inside the box unless Overflows is reported
		if c.Width > 0 && !txt.Overflows && (right > c.Width+jtol || left < -1e-6) {
			return vf.Errorf("line %d spans [%v,%v] in a box of width %v but Overflows is false (input %q)", li, left, right, c.Width, input)
		}
		// span widths are the widths of their glyphs (left aligned text is never stretched)
		if c.HAlign == 0 {
			for _, s := range sp {
				if s.IsText() {
					adv := int32(0)
					for _, g := range s.Glyphs {
						adv += g.XAdvance
					}
					if w := s.Face.MmPerEm * float64(adv); math.Abs(w-s.Width) > 1e-6*(1+w) {
						return vf.Errorf("line %d: span %q has Width %v but its glyph advances add up to %v", li, s.Text, s.Width, w)
					}
				}
			}
		}
		// 5. alignment
		if c.Width == 0 && c.Indent == 0 && len(sp) > 0 {
			// without a box width nothing is wrapped; right-aligned lines still share their right edge and centred
			// lines their centre (whatever the anchor is)
			switch c.HAlign {
			case 1:
				if !math.IsNaN(anchor0) && math.Abs(right-anchor0) > 1e-6 {
					return vf.Errorf("right aligned line %d ends at x=%v, an earlier line at x=%v (no box width; input %q)", li, right, anchor0, input)
				}
				anchor0 = right
			case 2:
				if !math.IsNaN(anchor0) && math.Abs((left+right)/2-anchor0) > 1e-6 {
					return vf.Errorf("centred line %d is centred at x=%v, an earlier line at x=%v (no box width; input %q)", li, (left+right)/2, anchor0, input)
				}
				anchor0 = (left + right) / 2
			}
		}
		if c.Width > 0 && !txt.Overflows {
			switch c.HAlign {
			case 0:
				// a line starts at 0, or at the indent when it is the first line of a paragraph
				if math.Abs(left) > 1e-6 && !(c.Indent > 0 && math.Abs(left-c.Indent) < 1e-6) {
					return vf.Errorf("left aligned line %d starts at x=%v (indent %v) input %q", li, left, c.Indent, input)
				}
			case 1:
				if math.Abs(right-c.Width) > 1e-6 {
					return vf.Errorf("right aligned line %d (%q...) ends at x=%v, box width %v", li, sp[0].Text, right, c.Width)
				}
			case 2:
				if c.Indent == 0 && math.Abs((left+right)/2-c.Width/2) > 1e-6 {
					return vf.Errorf("centred line %d (%q...) spans [%v,%v], box width %v", li, sp[0].Text, left, right, c.Width)
				}
			case 3:
				if right > c.Width+jtol {
					return vf.Errorf("justified line %d ends at %v beyond the box width %v", li, right, c.Width)
				}
				if !rtl && paraLast != nil {
					if err := checkJustified(c, li, sp, left, right, paraLast[li], jtol, input, r); err != nil {
						return err
					}
				}
			}
		}
		// Bounds encloses all spans
		if left < b.X0-1e-6 || right > b.X1+1e-6 || l.y > b.Y1+1e-6 || l.y < b.Y0-1e-6 {
			return vf.Errorf("Bounds %v does not enclose line %d spanning [%v,%v] at y=%v", b, li, left, right, l.y)
		}
	}
	return nil
}

func checkVisualOrder(li int, spans []canvas.TextSpan, input string, r *vf.R) error {
	if len(spans) < 2 {
		return nil
	}
	lv := make([]int, len(spans))
	mixed := false
	for k, s := range spans {
		lv[k] = s.Level
		if s.Level > 0 {
			mixed = true
		}
	}
	r.ClassIf(mixed, "line-with-embedded-levels")
	if mixed {
		r.NonTrivial()
	}
	x := math.Inf(1)
	for _, s := range spans {
		x = math.Min(x, s.X)
	}
	for _, k := range visualOrder(lv) {
		if math.Abs(spans[k].X-x) > 1e-6 {
			return vf.Errorf("line %d: span %d %q (level %d of levels %v) is at x=%v, its place in visual order is x=%v (input %q)", li, k, spans[k].Text, lv[k], lv, spans[k].X, x, input)
		}
		x += spans[k].Width
	}
	return nil
}

// visualOrder returns the logical indices in visual (left to right) order for the given embedding levels: a sequence at level >= l is laid out in reading direction of l, with every deeper sequence laid out recursively.
func visualOrder(levels []int) []int {
	var lay func(lo, hi, l int) []int
	lay = func(lo, hi, l int) []int {
		// chunks of [lo,hi): single items at level l, or maximal sequences deeper than l
		var chunks [][]int
		for i := lo; i < hi; {
			if levels[i] <= l {
				chunks = append(chunks, []int{i})
				i++
				continue
			}
			j := i
			for j < hi && levels[j] > l {
				j++
			}
			chunks = append(chunks, lay(i, j, l+1))
			i = j
		}
		var out []int
		if l%2 == 0 {
			for _, c := range chunks {
				out = append(out, c...)
			}
		} else {
			for k := len(chunks) - 1; k >= 0; k-- {
				out = append(out, chunks[k]...)
			}
		}
		return out
	}
	return lay(0, len(levels), 0)
}

func isSpace(r rune) bool {
	return r == ' ' || r == '\t' || 0x2000 <= r && r <= 0x200A || r == 0x205F || r == 0x3000
}

func isNewline(r rune) bool {
	return r == '\r' || r == '\n' || r == '\f' || r == '\v' || r == 0x85 || r == 0x2028 || r == 0x2029
}

// paragraphEnds maps every laid-out line of a left-to-right text back to the input and tells whether the line is the last of its paragraph (followed by an explicit line break or the end of the text). It returns nil when the lines cannot be mapped (which the character check reports).
func paragraphEnds(input string, lines []ln) []int {
	in := []rune(input)
	p := 0
	ends := make([]int, len(lines)) // 0: not the last line of a paragraph, 1: last line, 2: last line followed by whitespace that is dropped
	for li, l := range lines {
		sp := append([]canvas.TextSpan(nil), l.spans...)
		sort.SliceStable(sp, func(i, j int) bool { return sp[i].X < sp[j].X })
		for _, s := range sp {
			if !s.IsText() {
				continue
			}
			for _, ch := range s.Text {
				for p < len(in) && !(in[p] == ch || ch == '-' && in[p] == 0xAD) {
					if !(isSpace(in[p]) || isNewline(in[p]) || in[p] == 0xAD || in[p] == 0x200B) {
						return nil
					}
					p++
				}
				if p == len(in) {
					return nil
				}
				p++
			}
		}
		q := p
		for q < len(in) && (isSpace(in[q]) || in[q] == 0xAD || in[q] == 0x200B) {
			q++
		}
		if q == len(in) || isNewline(in[q]) {
			ends[li] = 1
			if q > p {
				ends[li] = 2
			}
		}
	}
	return ends
}

var (
	spaceMu  sync.Mutex
	spaceAdv = map[*canvas.FontFace]map[rune]float64{}
)

// naturalSpace is the advance in font units the shaper gives a space character on its own (a single unbroken line is never adjusted).
func naturalSpace(face *canvas.FontFace, r rune) float64 {
	spaceMu.Lock()
	defer spaceMu.Unlock()
	if v, ok := spaceAdv[face][r]; ok {
		return v
	}
	adv := 0.0
	canvas.NewTextLine(face, "x"+string(r)+"x", canvas.Left).WalkSpans(func(x, y float64, span canvas.TextSpan) {
		for _, g := range span.Glyphs {
			if g.Text == r {
				adv = float64(g.XAdvance)
			}
		}
	})
	if spaceAdv[face] == nil {
		spaceAdv[face] = map[rune]float64{}
	}
	spaceAdv[face][r] = adv
	return adv
}

// checkJustified decides from the laid-out glyphs alone what a justified line must look like: the natural width of the line and the stretchability and shrinkability of its spaces (documented in text/linebreak.go: half and a third of the space width, scaled by the sentence, colon, semicolon and comma factors) give the adjustment ratio the line needs; within [-1, Tolerance] the line must end at the box width, otherwise its spaces must have their natural widths.
func checkJustified(c Case, li int, sp []canvas.TextSpan, left, right float64, paraEnd int, jtol float64, input string, r *vf.R) error {
	type gl struct {
		r        rune
		adv, nat float64
	}
	var gs []gl
	for _, s := range sp {
		if !s.IsText() {
			return nil
		}
		for _, g := range s.Glyphs {
			nat := float64(g.XAdvance)
			if isSpace(g.Text) {
				nat = naturalSpace(s.Face, g.Text)
			}
			gs = append(gs, gl{g.Text, s.Face.MmPerEm * float64(g.XAdvance), s.Face.MmPerEm * nat})
		}
	}
	last := paraEnd != 0
	if paraEnd == 2 {
		// the property makes no claim about the last line of a paragraph; the dropped whitespace takes part in its width and may shrink it
		r.Class("justify:last-line-with-dropped-whitespace")
		return nil
	}
	natural, Y, Z := left, 0.0, 0.0
	adjustment := 0.0
	for i, g := range gs {
		if !isSpace(g.r) {
			natural += g.adv
			continue
		}
		natural += g.nat
		adjustment += g.adv - g.nat
		f := 1.0
		j := i - 1
		if 0 <= j && (gs[j].r == ')' || gs[j].r == ']' || gs[j].r == '\'' || gs[j].r == '"') {
			j--
		}
		if 0 <= j && (j == 0 || !unicode.IsUpper(gs[j-1].r)) {
			switch gs[j].r {
			case '.', '!', '?':
				f = 3.0
			case ':':
				f = 2.0
			case ';':
				f = 1.5
			case ',':
				f = 1.25
			}
		}
		Y += g.nat / 2.0 * f
		Z += g.nat / 3.0 / f
	}
	need := c.Width - natural
	ratio := 0.0
	if need > 0 {
		if last {
			ratio = 0.0 // the paragraph's final glue is infinitely stretchable
		} else if Y > 0 {
			ratio = need / Y
		} else {
			ratio = math.Inf(1)
		}
	} else if need < 0 {
		if Z > 0 {
			ratio = need / Z
		} else {
			ratio = math.Inf(-1)
		}
	}
	const m = 1e-6
	if math.Abs(ratio-2) < m || math.Abs(ratio+1) < m {
		r.Class("justify:ratio-on-threshold")
		return nil
	}
	if last && need >= 0 || ratio > 2 || ratio < -1 {
		r.Class("justify:unstretched")
		// the last line of a paragraph ends in glue of a large finite stretchability, which leaves the spaces a negligible share
		if math.Abs(adjustment) > 0.05*math.Abs(need)+jtol {
			return vf.Errorf("justified line %d needs adjustment ratio %v (last of paragraph: %v) yet its spaces are adjusted by %v; line spans [%v,%v], box width %v (input %q)", li, ratio, last, adjustment, left, right, c.Width, input)
		}
		return nil
	}
	r.Class("justify:stretched")
	r.NonTrivial()
	if math.Abs(right-c.Width) > jtol {
		return vf.Errorf("justified line %d needs adjustment ratio %v, within the tolerance [-1,2], but ends at %v in a box of width %v (input %q)", li, ratio, right, c.Width, input)
	}
	return nil
}

func TestLayout(t *testing.T) {
	vf.Run(t, vf.Prop[Case]{Sub: "layout", Gen: genCase, Check: checkCase, Cases: vf.N(10000, 60000)})
}

// ---------------- single line ----------------

type LCase struct {
	Text   string `json:"text"`
	Face   int    `json:"face"`
	HAlign int    `json:"halign"`
}

func genL(t *rapid.T) LCase {
	var sb strings.Builder
	n := rapid.IntRange(1, 8).Draw(t, "n")
	for i := 0; i < n; i++ {
		if rapid.IntRange(0, 5).Draw(t, "rtl") == 0 {
			sb.WriteString(rtlWords[rapid.IntRange(0, len(rtlWords)-1).Draw(t, "rw")])
		} else {
			sb.WriteString(words[rapid.IntRange(0, len(words)-1).Draw(t, "w")])
		}
		if i+1 < n {
			// spaces, and every paragraph separator the line splitter knows (one, two and three bytes long)
			sb.WriteString([]string{" ", " ", "\n", "  ", " ", "\n", "\r\n", "\r", "\v", "\f", "\u0085", "\u2028", "\u2029"}[rapid.IntRange(0, 12).Draw(t, "s")])
		}
	}
	return LCase{Text: sb.String(), Face: rapid.IntRange(0, 2).Draw(t, "face"), HAlign: rapid.IntRange(0, 2).Draw(t, "halign")}
}

func checkL(c LCase, r *vf.R) error {
	fs, err := loadFaces()
	if err != nil {
		return vf.Errorf("fonts: %v", err)
	}
	var txt *canvas.Text
	if perr := vf.Try("NewTextLine", func() { txt = canvas.NewTextLine(fs[c.Face], c.Text, haligns[c.HAlign]) }); perr != nil {
		return perr
	}
	var out strings.Builder
	nlines := 0
	var perr error
	txt.WalkLines(func(y float64, spans []canvas.TextSpan) {
		nlines++
		if err := checkVisualOrder(nlines-1, spans, c.Text, r); err != nil && perr == nil {
			perr = err
		}
		left, right := math.Inf(1), math.Inf(-1)
		for _, s := range spans {
			out.WriteString(s.Text)
			left, right = math.Min(left, s.X), math.Max(right, s.X+s.Width)
		}
		if len(spans) == 0 {
			return
		}
		switch c.HAlign {
		case 0:
			if math.Abs(left) > 1e-6 {
				perr = vf.Errorf("left aligned text line starts at %v", left)
			}
		case 1:
			if math.Abs(right) > 1e-6 {
				perr = vf.Errorf("right aligned text line ends at %v (anchor is x=0)", right)
			}
		case 2:
			if math.Abs(left+right) > 1e-6 {
				perr = vf.Errorf("centred text line spans [%v,%v] (anchor is x=0)", left, right)
			}
		}
	})
	if perr != nil {
		return perr
	}
	if visible(out.String()) != visible(c.Text) {
		return vf.Errorf("NewTextLine lays out %q for %q", out.String(), c.Text)
	}
	want := 1 - strings.Count(c.Text, "\r\n") // CR LF is one separator
	for _, r := range c.Text {
		if r >= 0x0A && r <= 0x0D || r == 0x85 || r == 0x2028 || r == 0x2029 {
			want++
		}
	}
	if nlines != want {
		return vf.Errorf("NewTextLine produced %d lines for %q", nlines, c.Text)
	}
	if nlines >= 2 {
		r.NonTrivial()
	}
	return nil
}

func TestTextLine(t *testing.T) {
	vf.Run(t, vf.Prop[LCase]{Sub: "textline", Gen: genL, Check: checkL, Cases: vf.N(10000, 60000)})
}
