package c16

import (
	"testing"

	"pgregory.net/rapid"

	"verif/harness/vf"
)

// FuzzLayout drives the generated check with Go's coverage-guided fuzzer (thorough tier only): the fuzzer's bytes are the
// random source of the same generator, the oracle is the same check.
func FuzzLayout(f *testing.F) {
	f.Fuzz(rapid.MakeFuzz(func(t *rapid.T) {
		c := genCase(t)
		if err := checkCase(c, &vf.R{}); err != nil {
			t.Fatalf("%v\ncase: %+v", err, c)
		}
	}))
}
