// Package pdfread is a minimal, strict PDF reader written against ISO 32000-1 only. It does not import canvas: it is the independent observer for the bytes the PDF renderer writes. It does not repair anything; whatever a conforming reader could not take at face value is reported as a problem.
package pdfread

import (
	"bytes"
	"compress/zlib"
	"encoding/ascii85"
	"fmt"
	"image/jpeg"
	"io"
	"sort"
	"strconv"
	"unicode/utf16"
)

type Name string
type Ref struct{ Num, Gen int }
type Dict map[Name]any
type Array []any
type String []byte
type Keyword string // a bare word that is not a number, boolean or null

type Stream struct {
	Dict Dict
	Raw  []byte
	Data []byte // after applying the filters; nil if they could not be applied
}

type Object struct {
	Num, Gen int
	Offset   int
	Value    any
}

type File struct {
	Version string
	Objects map[int]*Object
	Trailer Dict
	Xref    map[int]XrefEntry
}

type XrefEntry struct {
	Offset, Gen int
	InUse       bool
}

// ---------------------------------------------------------------- lexer

func isWhite(c byte) bool {
	return c == 0 || c == '\t' || c == '\n' || c == '\f' || c == '\r' || c == ' '
}

func isDelim(c byte) bool {
	switch c {
	case '(', ')', '<', '>', '[', ']', '{', '}', '/', '%':
		return true
	}
	return false
}

type lexer struct {
	b   []byte
	pos int
}

func (l *lexer) skipWhite() {
	for l.pos < len(l.b) {
		c := l.b[l.pos]
		if isWhite(c) {
			l.pos++
		} else if c == '%' {
			for l.pos < len(l.b) && l.b[l.pos] != '\n' && l.b[l.pos] != '\r' {
				l.pos++
			}
		} else {
			return
		}
	}
}

type tokEOF struct{}
type tokArrayEnd struct{}
type tokDictEnd struct{}

// next returns the next object or keyword. Numbers are int64 or float64.
func (l *lexer) next() (any, error) {
	l.skipWhite()
	if l.pos >= len(l.b) {
		return tokEOF{}, nil
	}
	c := l.b[l.pos]
	switch {
	case c == '(':
		return l.literalString()
	case c == '<':
		if l.pos+1 < len(l.b) && l.b[l.pos+1] == '<' {
			l.pos += 2
			return l.dict()
		}
		return l.hexString()
	case c == '>':
		if l.pos+1 < len(l.b) && l.b[l.pos+1] == '>' {
			l.pos += 2
			return tokDictEnd{}, nil
		}
		return nil, fmt.Errorf("offset %d: stray '>'", l.pos)
	case c == '[':
		l.pos++
		arr := Array{}
		for {
			v, err := l.value()
			if err != nil {
				return nil, err
			}
			switch v.(type) {
			case tokArrayEnd:
				return arr, nil
			case tokEOF:
				return nil, fmt.Errorf("unterminated array")
			case tokDictEnd:
				return nil, fmt.Errorf("offset %d: '>>' inside array", l.pos)
			case Keyword:
				return nil, fmt.Errorf("offset %d: keyword %q inside array", l.pos, v)
			}
			arr = append(arr, v)
		}
	case c == ']':
		l.pos++
		return tokArrayEnd{}, nil
	case c == '/':
		return l.name()
	case c == '{' || c == '}' || c == ')':
		return nil, fmt.Errorf("offset %d: stray %q", l.pos, c)
	}
	start := l.pos
	for l.pos < len(l.b) && !isWhite(l.b[l.pos]) && !isDelim(l.b[l.pos]) {
		l.pos++
	}
	w := string(l.b[start:l.pos])
	switch w {
	case "true":
		return true, nil
	case "false":
		return false, nil
	case "null":
		return nil, nil
	}
	if n, ok := parseNumber(w); ok {
		return n, nil
	}
	return Keyword(w), nil
}

// parseNumber accepts exactly the PDF syntax: an optional sign, digits with at most one period (no exponent, no NaN/Inf).
func parseNumber(w string) (any, bool) {
	if w == "" {
		return nil, false
	}
	i := 0
	if w[0] == '+' || w[0] == '-' {
		i = 1
	}
	digits, dots := 0, 0
	for _, c := range []byte(w[i:]) {
		if '0' <= c && c <= '9' {
			digits++
		} else if c == '.' {
			dots++
		} else {
			return nil, false
		}
	}
	if digits == 0 || dots > 1 {
		return nil, false
	}
	if dots == 0 {
		n, err := strconv.ParseInt(w, 10, 64)
		if err != nil {
			f, err := strconv.ParseFloat(w, 64)
			if err != nil {
				return nil, false
			}
			return f, true
		}
		return n, true
	}
	f, err := strconv.ParseFloat(w, 64)
	if err != nil {
		return nil, false
	}
	return f, true
}

func (l *lexer) name() (any, error) {
	l.pos++ // '/'
	var out []byte
	for l.pos < len(l.b) && !isWhite(l.b[l.pos]) && !isDelim(l.b[l.pos]) {
		c := l.b[l.pos]
		if c == '#' {
			if l.pos+2 >= len(l.b) {
				return nil, fmt.Errorf("offset %d: truncated # escape in name", l.pos)
			}
			v, err := strconv.ParseUint(string(l.b[l.pos+1:l.pos+3]), 16, 8)
			if err != nil {
				return nil, fmt.Errorf("offset %d: bad # escape in name", l.pos)
			}
			out = append(out, byte(v))
			l.pos += 3
			continue
		}
		if c < 0x21 || c > 0x7E {
			return nil, fmt.Errorf("offset %d: byte %#x in a name must be written as #xx", l.pos, c)
		}
		out = append(out, c)
		l.pos++
	}
	return Name(out), nil
}

func (l *lexer) literalString() (any, error) {
	start := l.pos
	l.pos++
	depth := 1
	var out []byte
	for l.pos < len(l.b) {
		c := l.b[l.pos]
		switch c {
		case '(':
			depth++
			out = append(out, c)
			l.pos++
		case ')':
			depth--
			l.pos++
			if depth == 0 {
				return String(out), nil
			}
			out = append(out, c)
		case '\r':
			// an end-of-line marker in a literal string is read as a single LINE FEED
			out = append(out, '\n')
			l.pos++
			if l.pos < len(l.b) && l.b[l.pos] == '\n' {
				l.pos++
			}
		case '\\':
			l.pos++
			if l.pos >= len(l.b) {
				return nil, fmt.Errorf("offset %d: unterminated string", start)
			}
			e := l.b[l.pos]
			switch e {
			case 'n':
				out = append(out, '\n')
				l.pos++
			case 'r':
				out = append(out, '\r')
				l.pos++
			case 't':
				out = append(out, '\t')
				l.pos++
			case 'b':
				out = append(out, '\b')
				l.pos++
			case 'f':
				out = append(out, '\f')
				l.pos++
			case '(', ')', '\\':
				out = append(out, e)
				l.pos++
			case '\r':
				l.pos++
				if l.pos < len(l.b) && l.b[l.pos] == '\n' {
					l.pos++
				}
			case '\n':
				l.pos++
			default:
				if '0' <= e && e <= '7' {
					v := 0
					for k := 0; k < 3 && l.pos < len(l.b) && '0' <= l.b[l.pos] && l.b[l.pos] <= '7'; k++ {
						v = v*8 + int(l.b[l.pos]-'0')
						l.pos++
					}
					out = append(out, byte(v))
				}
				// otherwise the reverse solidus is ignored
			}
		default:
			out = append(out, c)
			l.pos++
		}
	}
	return nil, fmt.Errorf("offset %d: unterminated string", start)
}

func (l *lexer) hexString() (any, error) {
	start := l.pos
	l.pos++
	var nib []byte
	for l.pos < len(l.b) {
		c := l.b[l.pos]
		l.pos++
		switch {
		case c == '>':
			if len(nib)%2 == 1 {
				nib = append(nib, 0)
			}
			out := make([]byte, len(nib)/2)
			for i := range out {
				out[i] = nib[2*i]<<4 | nib[2*i+1]
			}
			return String(out), nil
		case isWhite(c):
		case '0' <= c && c <= '9':
			nib = append(nib, c-'0')
		case 'a' <= c && c <= 'f':
			nib = append(nib, c-'a'+10)
		case 'A' <= c && c <= 'F':
			nib = append(nib, c-'A'+10)
		default:
			return nil, fmt.Errorf("offset %d: byte %q in hex string", l.pos-1, c)
		}
	}
	return nil, fmt.Errorf("offset %d: unterminated hex string", start)
}

func (l *lexer) dict() (any, error) {
	d := Dict{}
	for {
		k, err := l.next()
		if err != nil {
			return nil, err
		}
		switch key := k.(type) {
		case tokDictEnd:
			return d, nil
		case Name:
			v, err := l.value()
			if err != nil {
				return nil, err
			}
			switch v.(type) {
			case tokDictEnd, tokArrayEnd, tokEOF, Keyword:
				return nil, fmt.Errorf("offset %d: dictionary key /%s has no value (found %v)", l.pos, key, v)
			}
			if _, dup := d[key]; dup {
				return nil, fmt.Errorf("offset %d: duplicate dictionary key /%s", l.pos, key)
			}
			d[key] = v
		default:
			return nil, fmt.Errorf("offset %d: dictionary key is not a name: %v", l.pos, k)
		}
	}
}

// value reads one object, combining "n g R" into a Ref.
func (l *lexer) value() (any, error) {
	v, err := l.next()
	if err != nil {
		return nil, err
	}
	if n, ok := v.(int64); ok && n >= 0 {
		save := l.pos
		v2, err2 := l.next()
		if g, ok := v2.(int64); ok && err2 == nil && g >= 0 {
			v3, err3 := l.next()
			if k, ok := v3.(Keyword); ok && err3 == nil && k == "R" {
				return Ref{int(n), int(g)}, nil
			}
		}
		l.pos = save
	}
	return v, nil
}

// ---------------------------------------------------------------- file structure

type Problems []string

func (p *Problems) add(format string, a ...any) { *p = append(*p, fmt.Sprintf(format, a...)) }

// Parse reads a PDF file the way a conforming reader does: header, startxref, cross-reference table, trailer, then every object at its recorded offset. Independently it scans the body sequentially for object definitions and compares both views.
func Parse(b []byte) (*File, Problems) {
	var p Problems
	f := &File{Objects: map[int]*Object{}, Xref: map[int]XrefEntry{}}
	// header
	if len(b) < 9 || string(b[:5]) != "%PDF-" || b[5] < '1' || b[5] > '2' || b[6] != '.' || b[7] < '0' || b[7] > '9' {
		p.add("header: file does not start with %%PDF-x.y")
		return f, p
	}
	f.Version = string(b[5:8])
	// trailer end
	end := bytes.TrimRight(b, "\r\n")
	if !bytes.HasSuffix(end, []byte("%%EOF")) {
		p.add("file does not end with %%%%EOF")
		return f, p
	}
	tail := end
	if len(tail) > 1024 {
		tail = tail[len(tail)-1024:]
	}
	sx := bytes.LastIndex(tail, []byte("startxref"))
	if sx < 0 {
		p.add("no startxref in the last 1024 bytes")
		return f, p
	}
	lx := &lexer{b: end, pos: len(end) - len(tail) + sx + len("startxref")}
	v, err := lx.next()
	xoff, ok := v.(int64)
	if err != nil || !ok || xoff <= 0 || int(xoff) >= len(b) {
		p.add("startxref is not followed by a byte offset inside the file: %v", v)
		return f, p
	}
	lx.skipWhite() // skips the %%EOF comment
	if lx.pos != len(end) {
		p.add("unexpected data between startxref offset and %%%%EOF")
	}
	// cross-reference table
	l := &lexer{b: b, pos: int(xoff)}
	if !bytes.HasPrefix(b[xoff:], []byte("xref")) {
		p.add("startxref %d does not point at the keyword xref (found %q)", xoff, clip(b[xoff:], 12))
		return f, p
	}
	l.pos += 4
	if l.pos >= len(b) || !(b[l.pos] == '\n' || b[l.pos] == '\r') {
		p.add("xref keyword not followed by an end-of-line")
	}
	entries := 0
	for {
		save := l.pos
		v, err := l.next()
		if err != nil {
			p.add("xref: %v", err)
			return f, p
		}
		if k, ok := v.(Keyword); ok && k == "trailer" {
			break
		}
		first, ok1 := v.(int64)
		v2, _ := l.next()
		count, ok2 := v2.(int64)
		if !ok1 || !ok2 || first < 0 || count < 0 {
			p.add("xref: malformed subsection header at offset %d", save)
			return f, p
		}
		// exactly one EOL, then count entries of exactly 20 bytes
		for l.pos < len(b) && b[l.pos] == ' ' {
			l.pos++
		}
		if l.pos < len(b) && b[l.pos] == '\r' {
			l.pos++
		}
		if l.pos < len(b) && b[l.pos] == '\n' {
			l.pos++
		}
		for i := 0; i < int(count); i++ {
			if l.pos+20 > len(b) {
				p.add("xref: table truncated")
				return f, p
			}
			e := b[l.pos : l.pos+20]
			l.pos += 20
			okFmt := e[10] == ' ' && e[16] == ' ' && (e[17] == 'n' || e[17] == 'f') && (string(e[18:]) == " \n" || string(e[18:]) == " \r" || string(e[18:]) == "\r\n")
			off, err1 := strconv.Atoi(string(e[:10]))
			gen, err2 := strconv.Atoi(string(e[11:16]))
			if !okFmt || err1 != nil || err2 != nil {
				p.add("xref: entry %d is not in the 20-byte format: %q", int(first)+i, e)
				return f, p
			}
			num := int(first) + i
			if _, dup := f.Xref[num]; dup {
				p.add("xref: object %d listed twice", num)
			}
			f.Xref[num] = XrefEntry{Offset: off, Gen: gen, InUse: e[17] == 'n'}
			entries++
		}
	}
	tv, err := l.value()
	td, ok := tv.(Dict)
	if err != nil || !ok {
		p.add("trailer is not a dictionary: %v %v", tv, err)
		return f, p
	}
	f.Trailer = td
	if e0, ok := f.Xref[0]; !ok || e0.InUse || e0.Gen != 65535 {
		p.add("xref: object 0 must be free with generation 65535")
	}
	maxNum := -1
	for n := range f.Xref {
		if n > maxNum {
			maxNum = n
		}
	}
	if size, ok := td["Size"].(int64); !ok || int(size) != maxNum+1 {
		p.add("trailer /Size is %v, the cross-reference table's highest object number is %d", td["Size"], maxNum)
	}
	if td["Prev"] != nil {
		p.add("incremental updates (/Prev) not expected")
	}
	// objects at recorded offsets
	nums := make([]int, 0, len(f.Xref))
	for n := range f.Xref {
		nums = append(nums, n)
	}
	sort.Ints(nums)
	for _, n := range nums {
		e := f.Xref[n]
		if !e.InUse {
			if n != 0 {
				p.add("xref: object %d is marked free", n)
			}
			continue
		}
		if e.Offset <= 0 || e.Offset >= len(b) {
			p.add("xref: object %d has offset %d outside the file", n, e.Offset)
			continue
		}
		obj, err := parseObjectAt(b, e.Offset)
		if err != nil {
			p.add("xref: object %d at offset %d: %v", n, e.Offset, err)
			continue
		}
		if obj.Num != n || obj.Gen != e.Gen {
			p.add("xref: entry %d gen %d points at offset %d where object %d %d is defined", n, e.Gen, e.Offset, obj.Num, obj.Gen)
			continue
		}
		f.Objects[n] = obj
	}
	// sequential scan of the body
	scan := &lexer{b: b, pos: 0}
	seen := map[int]int{}
	for {
		scan.skipWhite()
		if scan.pos >= int(xoff) {
			if scan.pos != int(xoff) {
				p.add("body: object data runs into the cross-reference table (scan at %d, xref at %d)", scan.pos, xoff)
			}
			break
		}
		at := scan.pos
		obj, err := parseObjectAt(b, at)
		if err != nil {
			p.add("body: offset %d: %v (found %q)", at, err, clip(b[at:], 24))
			break
		}
		if prev, dup := seen[obj.Num]; dup {
			p.add("body: object %d defined twice (offsets %d and %d)", obj.Num, prev, at)
		}
		seen[obj.Num] = at
		if e, ok := f.Xref[obj.Num]; !ok || !e.InUse {
			p.add("body: object %d at offset %d is not listed in the cross-reference table", obj.Num, at)
		} else if e.Offset != at {
			p.add("xref: object %d is recorded at offset %d but '%d %d obj' starts at offset %d", obj.Num, e.Offset, obj.Num, obj.Gen, at)
		}
		scan.pos = obj.Offset // parseObjectAt leaves the end position here (see below)
	}
	for n, e := range f.Xref {
		if e.InUse {
			if _, ok := seen[n]; !ok {
				p.add("xref: object %d is listed in use but is not defined in the body", n)
			}
		}
	}
	// restore offsets (parseObjectAt reports the end offset in Offset for the scan)
	for n, o := range f.Objects {
		o.Offset = f.Xref[n].Offset
	}
	sort.Strings(p)
	return f, p
}

func clip(b []byte, n int) []byte {
	if len(b) > n {
		return b[:n]
	}
	return b
}

// parseObjectAt parses "n g obj value [stream] endobj" at offset; the returned Object.Offset is the offset just after endobj.
func parseObjectAt(b []byte, off int) (*Object, error) {
	l := &lexer{b: b, pos: off}
	if off < len(b) && isWhite(b[off]) {
		return nil, fmt.Errorf("offset points at white space, not at the object number")
	}
	v1, _ := l.next()
	v2, _ := l.next()
	v3, _ := l.next()
	num, ok1 := v1.(int64)
	gen, ok2 := v2.(int64)
	kw, ok3 := v3.(Keyword)
	if !ok1 || !ok2 || !ok3 || kw != "obj" {
		return nil, fmt.Errorf("expected 'n g obj'")
	}
	val, err := l.value()
	if err != nil {
		return nil, err
	}
	switch val.(type) {
	case tokEOF, tokArrayEnd, tokDictEnd, Keyword:
		return nil, fmt.Errorf("object %d has no value (found %v)", num, val)
	}
	end, err := l.next()
	if err != nil {
		return nil, err
	}
	if k, ok := end.(Keyword); ok && k == "stream" {
		d, ok := val.(Dict)
		if !ok {
			return nil, fmt.Errorf("object %d: stream keyword after a non-dictionary", num)
		}
		// the keyword stream is followed by CRLF or LF, not by CR alone
		if l.pos < len(b) && b[l.pos] == '\r' && l.pos+1 < len(b) && b[l.pos+1] == '\n' {
			l.pos += 2
		} else if l.pos < len(b) && b[l.pos] == '\n' {
			l.pos++
		} else {
			return nil, fmt.Errorf("object %d: keyword stream not followed by LF or CRLF", num)
		}
		length, ok := d["Length"].(int64)
		if !ok {
			return nil, fmt.Errorf("object %d: stream /Length is not a direct integer: %v", num, d["Length"])
		}
		if length < 0 || l.pos+int(length) > len(b) {
			return nil, fmt.Errorf("object %d: stream /Length %d exceeds the file", num, length)
		}
		raw := b[l.pos : l.pos+int(length)]
		l.pos += int(length)
		// end-of-line then endstream
		if l.pos < len(b) && b[l.pos] == '\r' {
			l.pos++
		}
		if l.pos < len(b) && b[l.pos] == '\n' {
			l.pos++
		}
		if !bytes.HasPrefix(b[l.pos:], []byte("endstream")) {
			return nil, fmt.Errorf("object %d: /Length %d does not end at the keyword endstream (found %q)", num, length, clip(b[l.pos:], 16))
		}
		l.pos += len("endstream")
		st := &Stream{Dict: d, Raw: raw}
		val = st
		end, err = l.next()
		if err != nil {
			return nil, err
		}
	}
	if k, ok := end.(Keyword); !ok || k != "endobj" {
		return nil, fmt.Errorf("object %d: expected endobj, found %v", num, end)
	}
	return &Object{Num: int(num), Gen: int(gen), Offset: l.pos, Value: val}, nil
}

// Decode applies the stream's filters.
func (s *Stream) Decode() ([]byte, error) {
	if s.Data != nil {
		return s.Data, nil
	}
	var filters []Name
	switch f := s.Dict["Filter"].(type) {
	case nil:
	case Name:
		filters = []Name{f}
	case Array:
		for _, x := range f {
			n, ok := x.(Name)
			if !ok {
				return nil, fmt.Errorf("/Filter array holds %v", x)
			}
			filters = append(filters, n)
		}
	default:
		return nil, fmt.Errorf("/Filter is %v", f)
	}
	data := s.Raw
	for _, f := range filters {
		switch f {
		case "FlateDecode":
			r, err := zlib.NewReader(bytes.NewReader(data))
			if err != nil {
				return nil, fmt.Errorf("FlateDecode: %v", err)
			}
			out, err := io.ReadAll(r)
			if err != nil {
				return nil, fmt.Errorf("FlateDecode: %v", err)
			}
			data = out
		case "ASCII85Decode":
			i := bytes.Index(data, []byte("~>"))
			if i < 0 {
				return nil, fmt.Errorf("ASCII85Decode: no ~> end marker")
			}
			out, err := io.ReadAll(ascii85.NewDecoder(bytes.NewReader(data[:i])))
			if err != nil {
				return nil, fmt.Errorf("ASCII85Decode: %v", err)
			}
			data = out
		case "DCTDecode":
			if _, err := jpeg.Decode(bytes.NewReader(data)); err != nil {
				return nil, fmt.Errorf("DCTDecode: %v", err)
			}
		default:
			return nil, fmt.Errorf("unknown filter /%s", f)
		}
	}
	if data == nil {
		data = []byte{}
	}
	s.Data = data
	return data, nil
}

// Resolve follows an indirect reference (one level is all a writer needs).
func (f *File) Resolve(v any) any {
	for i := 0; i < 8; i++ {
		r, ok := v.(Ref)
		if !ok {
			return v
		}
		o, ok := f.Objects[r.Num]
		if !ok || o.Gen != r.Gen {
			return nil
		}
		v = o.Value
	}
	return nil
}

func (f *File) Dict(v any) Dict {
	switch d := f.Resolve(v).(type) {
	case Dict:
		return d
	case *Stream:
		return d.Dict
	}
	return nil
}

// walk visits every value reachable inside v (not following references).
func walk(v any, fn func(any)) {
	fn(v)
	switch x := v.(type) {
	case Dict:
		keys := make([]string, 0, len(x))
		for k := range x {
			keys = append(keys, string(k))
		}
		sort.Strings(keys)
		for _, k := range keys {
			walk(x[Name(k)], fn)
		}
	case Array:
		for _, e := range x {
			walk(e, fn)
		}
	case *Stream:
		walk(x.Dict, fn)
	}
}

// Num converts a PDF number.
func Num(v any) (float64, bool) {
	switch n := v.(type) {
	case int64:
		return float64(n), true
	case float64:
		return n, true
	}
	return 0, false
}

// TextString decodes a PDF text string: UTF-16BE with a byte order mark, otherwise PDFDocEncoding (identical to Latin-1 for the printable ASCII range; bytes >= 0x80 and controls are mapped through the PDFDocEncoding table).
func TextString(s String) string {
	if len(s) >= 2 && s[0] == 0xFE && s[1] == 0xFF {
		u := make([]uint16, 0, (len(s)-2)/2)
		for i := 2; i+1 < len(s); i += 2 {
			u = append(u, uint16(s[i])<<8|uint16(s[i+1]))
		}
		return string(utf16.Decode(u))
	}
	r := make([]rune, len(s))
	for i, c := range s {
		if m, ok := pdfDoc[c]; ok {
			r[i] = m
		} else {
			r[i] = rune(c)
		}
	}
	return string(r)
}

// pdfDoc lists where PDFDocEncoding differs from Latin-1 (ISO 32000-1 Annex D.3).
var pdfDoc = map[byte]rune{
	0x18: 0x02D8, 0x19: 0x02C7, 0x1A: 0x02C6, 0x1B: 0x02D9, 0x1C: 0x02DD, 0x1D: 0x02DB, 0x1E: 0x02DA, 0x1F: 0x02DC,
	0x80: 0x2022, 0x81: 0x2020, 0x82: 0x2021, 0x83: 0x2026, 0x84: 0x2014, 0x85: 0x2013, 0x86: 0x0192, 0x87: 0x2044,
	0x88: 0x2039, 0x89: 0x203A, 0x8A: 0x2212, 0x8B: 0x2030, 0x8C: 0x201E, 0x8D: 0x201C, 0x8E: 0x201D, 0x8F: 0x2018,
	0x90: 0x2019, 0x91: 0x201A, 0x92: 0x2122, 0x93: 0xFB01, 0x94: 0xFB02, 0x95: 0x0141, 0x96: 0x0152, 0x97: 0x0160,
	0x98: 0x0178, 0x99: 0x017D, 0x9A: 0x0131, 0x9B: 0x0142, 0x9C: 0x0153, 0x9D: 0x0161, 0x9E: 0x017E, 0xA0: 0x20AC,
}

func jpegConfig(data []byte) ([2]int, error) {
	cfg, err := jpeg.DecodeConfig(bytes.NewReader(data))
	return [2]int{cfg.Width, cfg.Height}, err
}
