package pdfread

import "fmt"

// Op is one content stream operator with its operands.
type Op struct {
	Name string
	Args []any
	Pos  int
}

// ParseContent tokenises a content stream into operators. Inline images are not supported (the writer under observation never emits them) and are reported.
func ParseContent(data []byte) ([]Op, error) {
	l := &lexer{b: data}
	var ops []Op
	var args []any
	for {
		at := l.pos
		v, err := l.next() // no indirect references in content streams
		if err != nil {
			return ops, err
		}
		switch t := v.(type) {
		case tokEOF:
			if len(args) != 0 {
				return ops, fmt.Errorf("content stream ends with %d operands and no operator", len(args))
			}
			return ops, nil
		case tokArrayEnd, tokDictEnd:
			return ops, fmt.Errorf("offset %d: stray closing delimiter", at)
		case Keyword:
			if t == "BI" || t == "ID" || t == "EI" {
				return ops, fmt.Errorf("offset %d: inline image operator %s", at, t)
			}
			ops = append(ops, Op{Name: string(t), Args: args, Pos: at})
			args = nil
		default:
			args = append(args, v)
		}
	}
}

type argKind int

const (
	kNum argKind = iota
	kName
	kString
	kArray
	kAny
	kDictOrName
)

type opSpec struct {
	args  []argKind
	class string // gs: general graphics state, sgs: special, color, tstate, tshow, tpos, path, clip, paint, mc, other
	vararg bool
}

func nums(n int) []argKind {
	a := make([]argKind, n)
	return a
}

var opTable = map[string]opSpec{
	"w": {nums(1), "gs", false}, "J": {nums(1), "gs", false}, "j": {nums(1), "gs", false}, "M": {nums(1), "gs", false},
	"d": {[]argKind{kArray, kNum}, "gs", false}, "ri": {[]argKind{kName}, "gs", false}, "i": {nums(1), "gs", false}, "gs": {[]argKind{kName}, "gs", false},
	"q": {nil, "sgs", false}, "Q": {nil, "sgs", false}, "cm": {nums(6), "sgs", false},
	"m": {nums(2), "path", false}, "l": {nums(2), "path", false}, "c": {nums(6), "path", false}, "v": {nums(4), "path", false}, "y": {nums(4), "path", false}, "h": {nil, "path", false}, "re": {nums(4), "path", false},
	"S": {nil, "paint", false}, "s": {nil, "paint", false}, "f": {nil, "paint", false}, "F": {nil, "paint", false}, "f*": {nil, "paint", false},
	"B": {nil, "paint", false}, "B*": {nil, "paint", false}, "b": {nil, "paint", false}, "b*": {nil, "paint", false}, "n": {nil, "paint", false},
	"W": {nil, "clip", false}, "W*": {nil, "clip", false},
	"BT": {nil, "other", false}, "ET": {nil, "other", false},
	"Tc": {nums(1), "tstate", false}, "Tw": {nums(1), "tstate", false}, "Tz": {nums(1), "tstate", false}, "TL": {nums(1), "tstate", false},
	"Tf": {[]argKind{kName, kNum}, "tstate", false}, "Tr": {nums(1), "tstate", false}, "Ts": {nums(1), "tstate", false},
	"Td": {nums(2), "tpos", false}, "TD": {nums(2), "tpos", false}, "Tm": {nums(6), "tpos", false}, "T*": {nil, "tpos", false},
	"Tj": {[]argKind{kString}, "tshow", false}, "TJ": {[]argKind{kArray}, "tshow", false}, "'": {[]argKind{kString}, "tshow", false}, "\"": {[]argKind{kNum, kNum, kString}, "tshow", false},
	"CS": {[]argKind{kName}, "color", false}, "cs": {[]argKind{kName}, "color", false},
	"SC": {nil, "color", true}, "SCN": {nil, "color", true}, "sc": {nil, "color", true}, "scn": {nil, "color", true},
	"G": {nums(1), "color", false}, "g": {nums(1), "color", false}, "RG": {nums(3), "color", false}, "rg": {nums(3), "color", false}, "K": {nums(4), "color", false}, "k": {nums(4), "color", false},
	"sh": {[]argKind{kName}, "other", false}, "Do": {[]argKind{kName}, "other", false},
	"MP": {[]argKind{kName}, "mc", false}, "DP": {[]argKind{kName, kDictOrName}, "mc", false}, "BMC": {[]argKind{kName}, "mc", false}, "BDC": {[]argKind{kName, kDictOrName}, "mc", false}, "EMC": {nil, "mc", false},
	"d0": {nums(2), "other", false}, "d1": {nums(6), "other", false}, "BX": {nil, "other", false}, "EX": {nil, "other", false},
}

func kindOK(k argKind, v any) bool {
	switch k {
	case kNum:
		_, ok := Num(v)
		return ok
	case kName:
		_, ok := v.(Name)
		return ok
	case kString:
		_, ok := v.(String)
		return ok
	case kArray:
		_, ok := v.(Array)
		return ok
	case kDictOrName:
		switch v.(type) {
		case Dict, Name:
			return true
		}
		return false
	}
	return true
}

// CheckContent validates a page's content stream against the graphics-object state machine of ISO 32000-1 §8.2 (Figure 9), the operand table of Annex A, the balance of q/Q and BT/ET, and the page's resource dictionary.
//
// Violations of the graphics-object state machine other than unbalanced BT/ET (a painting operator without a path, a path inside a text object, ...) are returned separately as notes: readers tolerate them and they do not make the stream impossible to interpret.
func (f *File) CheckContent(ops []Op, resources Dict) (Problems, Problems) {
	var p, notes Problems
	res := func(cat Name, n Name) bool {
		d := f.Dict(resources[cat])
		if d == nil {
			return false
		}
		_, ok := d[n]
		return ok
	}
	state := "page" // page, path, clip, text
	type gstate struct{ font bool }
	gs := gstate{}
	var stack []gstate
	for _, op := range ops {
		spec, ok := opTable[op.Name]
		if !ok {
			p.add("content offset %d: unknown operator %q (operands %v)", op.Pos, op.Name, op.Args)
			continue
		}
		if !spec.vararg {
			if len(op.Args) != len(spec.args) {
				p.add("content offset %d: operator %s takes %d operands, has %d: %v", op.Pos, op.Name, len(spec.args), len(op.Args), op.Args)
				continue
			}
			bad := false
			for i, k := range spec.args {
				if !kindOK(k, op.Args[i]) {
					p.add("content offset %d: operand %d of %s has the wrong type: %v", op.Pos, i+1, op.Name, op.Args[i])
					bad = true
				}
			}
			if bad {
				continue
			}
		} else {
			// SC/SCN/sc/scn: numbers, optionally followed by a pattern name for SCN/scn
			if len(op.Args) == 0 {
				p.add("content offset %d: operator %s without operands", op.Pos, op.Name)
				continue
			}
			for i, a := range op.Args {
				if _, isNum := Num(a); isNum {
					continue
				}
				if n, isName := a.(Name); isName && i == len(op.Args)-1 && (op.Name == "SCN" || op.Name == "scn") {
					if !res("Pattern", n) {
						p.add("content offset %d: pattern /%s used by %s is not in the page's /Pattern resources", op.Pos, n, op.Name)
					}
					continue
				}
				p.add("content offset %d: operand %d of %s has the wrong type: %v", op.Pos, i+1, op.Name, a)
			}
		}
		// state machine
		allowed := false
		switch state {
		case "page":
			switch spec.class {
			case "gs", "sgs", "color", "tstate", "mc":
				allowed = true
			case "path":
				if op.Name == "m" || op.Name == "re" {
					allowed = true
					state = "path"
				}
			case "other":
				switch op.Name {
				case "BT":
					allowed = true
					state = "text"
				case "Do", "sh", "BX", "EX", "d0", "d1":
					allowed = true
				}
			}
		case "path":
			switch spec.class {
			case "path":
				allowed = true
			case "clip":
				allowed = true
				state = "clip"
			case "paint":
				allowed = true
				state = "page"
			}
		case "clip":
			if spec.class == "paint" {
				allowed = true
				state = "page"
			}
		case "text":
			switch spec.class {
			case "gs", "color", "tstate", "tshow", "tpos", "mc":
				allowed = true
			case "other":
				if op.Name == "ET" {
					allowed = true
					state = "page"
				}
			}
		}
		if !allowed {
			if op.Name == "BT" || op.Name == "ET" {
				p.add("content offset %d: operator %s is not allowed in a %s object", op.Pos, op.Name, state)
			} else {
				notes.add("content offset %d: operator %s is not allowed in a %s object", op.Pos, op.Name, state)
			}
		}
		// resources and balance
		switch op.Name {
		case "q":
			stack = append(stack, gs)
		case "Q":
			if len(stack) == 0 {
				p.add("content offset %d: Q without a matching q", op.Pos)
			} else {
				gs = stack[len(stack)-1]
				stack = stack[:len(stack)-1]
			}
		case "Tf":
			if n, ok := op.Args[0].(Name); ok {
				if !res("Font", n) {
					p.add("content offset %d: font /%s is not in the page's /Font resources", op.Pos, n)
				}
				gs.font = true
			}
		case "Tj", "TJ", "'", "\"":
			if !gs.font {
				p.add("content offset %d: text shown by %s before any font was selected", op.Pos, op.Name)
			}
			if op.Name == "TJ" {
				if arr, ok := op.Args[0].(Array); ok {
					for _, e := range arr {
						if _, isNum := Num(e); isNum {
							continue
						}
						if _, isStr := e.(String); isStr {
							continue
						}
						p.add("content offset %d: TJ array element is neither string nor number: %v", op.Pos, e)
					}
				}
			}
		case "gs":
			if n, ok := op.Args[0].(Name); ok && !res("ExtGState", n) {
				p.add("content offset %d: graphics state /%s is not in the page's /ExtGState resources", op.Pos, n)
			}
		case "Do":
			if n, ok := op.Args[0].(Name); ok && !res("XObject", n) {
				p.add("content offset %d: XObject /%s is not in the page's /XObject resources", op.Pos, n)
			}
		case "sh":
			if n, ok := op.Args[0].(Name); ok && !res("Shading", n) {
				p.add("content offset %d: shading /%s is not in the page's /Shading resources", op.Pos, n)
			}
		case "cs", "CS":
			if n, ok := op.Args[0].(Name); ok {
				switch n {
				case "DeviceGray", "DeviceRGB", "DeviceCMYK", "Pattern":
				default:
					if !res("ColorSpace", n) {
						p.add("content offset %d: colour space /%s is not in the page's /ColorSpace resources", op.Pos, n)
					}
				}
			}
		case "d":
			if arr, ok := op.Args[0].(Array); ok {
				sum := 0.0
				for _, e := range arr {
					x, isNum := Num(e)
					if !isNum || x < 0 {
						p.add("content offset %d: dash array element %v is not a non-negative number", op.Pos, e)
					}
					sum += x
				}
				if len(arr) > 0 && sum == 0 {
					p.add("content offset %d: dash array %v sums to zero", op.Pos, arr)
				}
			}
		}
	}
	if state == "text" {
		p.add("content stream ends inside a text object")
	} else if state != "page" {
		notes.add("content stream ends inside a %s object", state)
	}
	if len(stack) != 0 {
		p.add("content stream ends with %d unmatched q", len(stack))
	}
	return p, notes
}
