package pdfread

import (
	"fmt"
	"sort"
)

// Page is a leaf of the page tree with its inherited attributes resolved.
type Page struct {
	Ref       Ref
	Dict      Dict
	Resources Dict
	MediaBox  [4]float64
	Content   []byte
	Ops       []Op
	Notes     Problems // tolerated irregularities of the content stream
}

// Validate checks the document structure: every reference resolves, every stream decodes, catalog and page tree are consistent, and every page's content stream is valid against its resources. It returns the pages in document order.
func (f *File) Validate() ([]*Page, Problems) {
	var p Problems
	// references and streams
	nums := make([]int, 0, len(f.Objects))
	for n := range f.Objects {
		nums = append(nums, n)
	}
	sort.Ints(nums)
	checkRefs := func(where string, v any) {
		walk(v, func(x any) {
			if r, ok := x.(Ref); ok {
				if o, ok := f.Objects[r.Num]; !ok || o.Gen != r.Gen {
					p.add("%s: reference %d %d R does not resolve to an object", where, r.Num, r.Gen)
				}
			}
		})
	}
	checkRefs("trailer", f.Trailer)
	for _, n := range nums {
		o := f.Objects[n]
		checkRefs(fmt.Sprintf("object %d", n), o.Value)
		if s, ok := o.Value.(*Stream); ok {
			if _, err := s.Decode(); err != nil {
				p.add("object %d: stream does not decode: %v", n, err)
			}
		}
	}
	// catalog
	rootRef, ok := f.Trailer["Root"].(Ref)
	if !ok {
		p.add("trailer /Root is not an indirect reference")
		return nil, p
	}
	cat := f.Dict(rootRef)
	if cat == nil || cat["Type"] != Name("Catalog") {
		p.add("/Root does not refer to a /Type /Catalog dictionary")
		return nil, p
	}
	pagesRef, ok := cat["Pages"].(Ref)
	if !ok {
		p.add("catalog /Pages is not an indirect reference")
		return nil, p
	}
	if ir, present := f.Trailer["Info"]; present {
		if _, ok := ir.(Ref); !ok {
			p.add("trailer /Info is not an indirect reference")
		} else if f.Dict(ir) == nil {
			p.add("trailer /Info does not refer to a dictionary")
		}
	}
	// page tree
	var pages []*Page
	visited := map[int]bool{}
	var visit func(ref Ref, parent *Ref, inhRes Dict, inhBox any) int
	visit = func(ref Ref, parent *Ref, inhRes Dict, inhBox any) int {
		if visited[ref.Num] {
			p.add("page tree: object %d reached twice", ref.Num)
			return 0
		}
		visited[ref.Num] = true
		d := f.Dict(ref)
		if d == nil {
			p.add("page tree: object %d is not a dictionary", ref.Num)
			return 0
		}
		if parent != nil {
			if pr, ok := d["Parent"].(Ref); !ok || pr != *parent {
				p.add("page tree: object %d has /Parent %v, it is a kid of %d", ref.Num, d["Parent"], parent.Num)
			}
		} else if d["Parent"] != nil {
			p.add("page tree: the root node has a /Parent")
		}
		if r := f.Dict(d["Resources"]); r != nil {
			inhRes = r
		}
		if b := f.Resolve(d["MediaBox"]); b != nil {
			inhBox = b
		}
		switch d["Type"] {
		case Name("Pages"):
			kids, ok := f.Resolve(d["Kids"]).(Array)
			if !ok {
				p.add("page tree: node %d has no /Kids array", ref.Num)
				return 0
			}
			total := 0
			for _, k := range kids {
				kr, ok := k.(Ref)
				if !ok {
					p.add("page tree: node %d has a kid that is not an indirect reference: %v", ref.Num, k)
					continue
				}
				total += visit(kr, &ref, inhRes, inhBox)
			}
			if c, ok := d["Count"].(int64); !ok || int(c) != total {
				p.add("page tree: node %d has /Count %v but %d page(s) below it", ref.Num, d["Count"], total)
			}
			return total
		case Name("Page"):
			pg := &Page{Ref: ref, Dict: d, Resources: inhRes}
			if parent == nil {
				p.add("page tree: a page object is the root")
			}
			if inhRes == nil {
				p.add("page %d: no /Resources", ref.Num)
				pg.Resources = Dict{}
			}
			box, ok := inhBox.(Array)
			if !ok || len(box) != 4 {
				p.add("page %d: /MediaBox is not an array of four numbers: %v", ref.Num, inhBox)
			} else {
				for i, e := range box {
					x, ok := Num(e)
					if !ok {
						p.add("page %d: /MediaBox element %v is not a number", ref.Num, e)
					}
					pg.MediaBox[i] = x
				}
			}
			var content []byte
			addStream := func(v any) {
				s, ok := f.Resolve(v).(*Stream)
				if !ok {
					p.add("page %d: /Contents entry %v is not a stream", ref.Num, v)
					return
				}
				if _, isRef := v.(Ref); !isRef {
					p.add("page %d: /Contents stream is not an indirect object", ref.Num)
				}
				data, err := s.Decode()
				if err != nil {
					return // reported above
				}
				content = append(content, data...)
				content = append(content, '\n')
			}
			switch c := d["Contents"].(type) {
			case nil:
			case Ref:
				if arr, ok := f.Resolve(c).(Array); ok {
					for _, e := range arr {
						addStream(e)
					}
				} else {
					addStream(c)
				}
			case Array:
				for _, e := range c {
					addStream(e)
				}
			default:
				p.add("page %d: /Contents is %v", ref.Num, c)
			}
			pg.Content = content
			ops, err := ParseContent(content)
			if err != nil {
				p.add("page %d: content stream: %v", ref.Num, err)
			}
			pg.Ops = ops
			hard, notes := f.CheckContent(ops, pg.Resources)
			for _, q := range hard {
				p.add("page %d: %s", ref.Num, q)
			}
			pg.Notes = notes
			// annotations
			if a := f.Resolve(d["Annots"]); a != nil {
				arr, ok := a.(Array)
				if !ok {
					p.add("page %d: /Annots is not an array", ref.Num)
				}
				for _, e := range arr {
					ad := f.Dict(e)
					if ad == nil {
						p.add("page %d: annotation %v is not a dictionary", ref.Num, e)
						continue
					}
					if _, ok := ad["Subtype"].(Name); !ok {
						p.add("page %d: annotation without /Subtype", ref.Num)
					}
					r, ok := f.Resolve(ad["Rect"]).(Array)
					if !ok || len(r) != 4 {
						p.add("page %d: annotation /Rect is not an array of four numbers: %v", ref.Num, ad["Rect"])
					} else {
						for _, e := range r {
							if _, ok := Num(e); !ok {
								p.add("page %d: annotation /Rect element %v is not a number", ref.Num, e)
							}
						}
					}
				}
			}
			pages = append(pages, pg)
			return 1
		default:
			p.add("page tree: object %d has /Type %v", ref.Num, d["Type"])
			return 0
		}
	}
	root := f.Dict(pagesRef)
	if root == nil || root["Type"] != Name("Pages") {
		p.add("catalog /Pages does not refer to a /Type /Pages dictionary")
		return nil, p
	}
	visit(pagesRef, nil, nil, nil)
	// every /Type /Page object in the file belongs to the tree
	for _, n := range nums {
		if d, ok := f.Objects[n].Value.(Dict); ok && d["Type"] == Name("Page") && !visited[n] {
			p.add("page object %d is not reachable from the page tree", n)
		}
	}
	return pages, p
}

// CheckResources validates the objects a page's resource dictionary defines: graphics state parameter dictionaries, shading patterns with their functions, and image XObjects (dimensions against the decoded sample data, soft masks).
func (f *File) CheckResources(pg *Page) Problems {
	var p Problems
	where := fmt.Sprintf("page %d", pg.Ref.Num)
	sortedKeys := func(d Dict) []Name {
		keys := make([]string, 0, len(d))
		for k := range d {
			keys = append(keys, string(k))
		}
		sort.Strings(keys)
		out := make([]Name, len(keys))
		for i, k := range keys {
			out[i] = Name(k)
		}
		return out
	}
	for _, cat := range sortedKeys(pg.Resources) {
		if f.Dict(pg.Resources[cat]) == nil && cat != "ProcSet" {
			p.add("%s: resource category /%s is not a dictionary", where, cat)
		}
	}
	if gs := f.Dict(pg.Resources["ExtGState"]); gs != nil {
		for _, n := range sortedKeys(gs) {
			d := f.Dict(gs[n])
			if d == nil {
				p.add("%s: ExtGState /%s is not a dictionary", where, n)
				continue
			}
			for _, k := range []Name{"CA", "ca"} {
				if v, present := d[k]; present {
					if x, ok := Num(v); !ok || x < 0 || x > 1 {
						p.add("%s: ExtGState /%s has /%s %v outside [0,1]", where, n, k, v)
					}
				}
			}
		}
	}
	if pats := f.Dict(pg.Resources["Pattern"]); pats != nil {
		for _, n := range sortedKeys(pats) {
			d := f.Dict(pats[n])
			if d == nil {
				p.add("%s: pattern /%s is not a dictionary", where, n)
				continue
			}
			pt, _ := d["PatternType"].(int64)
			if pt != 2 {
				p.add("%s: pattern /%s has /PatternType %v (only shading patterns expected)", where, n, d["PatternType"])
				continue
			}
			sh := f.Dict(d["Shading"])
			if sh == nil {
				p.add("%s: pattern /%s has no /Shading dictionary", where, n)
				continue
			}
			for _, q := range f.checkShading(sh) {
				p.add("%s: pattern /%s: %s", where, n, q)
			}
		}
	}
	if xo := f.Dict(pg.Resources["XObject"]); xo != nil {
		for _, n := range sortedKeys(xo) {
			s, ok := f.Resolve(xo[n]).(*Stream)
			if !ok {
				p.add("%s: XObject /%s is not a stream", where, n)
				continue
			}
			if s.Dict["Subtype"] == Name("Image") {
				for _, q := range f.checkImage(s, false) {
					p.add("%s: image /%s: %s", where, n, q)
				}
			}
		}
	}
	return p
}

func numArray(v any, n int) ([]float64, bool) {
	a, ok := v.(Array)
	if !ok || (n >= 0 && len(a) != n) {
		return nil, false
	}
	out := make([]float64, len(a))
	for i, e := range a {
		x, ok := Num(e)
		if !ok {
			return nil, false
		}
		out[i] = x
	}
	return out, true
}

func (f *File) checkShading(sh Dict) Problems {
	var p Problems
	st, _ := sh["ShadingType"].(int64)
	ncomp := 0
	switch f.Resolve(sh["ColorSpace"]) {
	case Name("DeviceRGB"):
		ncomp = 3
	case Name("DeviceGray"):
		ncomp = 1
	case Name("DeviceCMYK"):
		ncomp = 4
	default:
		p.add("shading /ColorSpace is %v", sh["ColorSpace"])
	}
	switch st {
	case 2:
		if _, ok := numArray(f.Resolve(sh["Coords"]), 4); !ok {
			p.add("axial shading /Coords is not an array of four numbers: %v", sh["Coords"])
		}
	case 3:
		c, ok := numArray(f.Resolve(sh["Coords"]), 6)
		if !ok {
			p.add("radial shading /Coords is not an array of six numbers: %v", sh["Coords"])
		} else if c[2] < 0 || c[5] < 0 {
			p.add("radial shading has a negative radius: %v", c)
		}
	default:
		p.add("shading /ShadingType is %v", sh["ShadingType"])
	}
	if e, present := sh["Extend"]; present {
		if a, ok := f.Resolve(e).(Array); !ok || len(a) != 2 {
			p.add("shading /Extend is not an array of two booleans")
		} else {
			for _, x := range a {
				if _, ok := x.(bool); !ok {
					p.add("shading /Extend element %v is not a boolean", x)
				}
			}
		}
	}
	fn := f.Dict(sh["Function"])
	if fn == nil {
		p.add("shading has no /Function dictionary")
		return p
	}
	for _, q := range f.checkFunction(fn, ncomp, 0) {
		p.add("function: %s", q)
	}
	return p
}

func (f *File) checkFunction(fn Dict, ncomp, depth int) Problems {
	var p Problems
	if depth > 4 {
		p.add("functions nested too deeply")
		return p
	}
	ft, ok := fn["FunctionType"].(int64)
	if !ok {
		p.add("no /FunctionType in %v", fn)
		return p
	}
	dom, ok := numArray(f.Resolve(fn["Domain"]), 2)
	if !ok || dom[0] > dom[1] {
		p.add("/Domain is not [min max]: %v", fn["Domain"])
	}
	switch ft {
	case 2:
		if _, ok := Num(fn["N"]); !ok {
			p.add("exponential function without numeric /N")
		}
		for _, k := range []Name{"C0", "C1"} {
			if v, present := fn[k]; present {
				c, ok := numArray(f.Resolve(v), -1)
				if !ok {
					p.add("/%s is not an array of numbers: %v", k, v)
				} else if ncomp != 0 && len(c) != ncomp {
					p.add("/%s has %d components, the colour space has %d", k, len(c), ncomp)
				}
			}
		}
	case 3:
		fns, ok := f.Resolve(fn["Functions"]).(Array)
		if !ok || len(fns) == 0 {
			p.add("stitching function without /Functions")
			return p
		}
		k := len(fns)
		b, ok := numArray(f.Resolve(fn["Bounds"]), k-1)
		if !ok {
			p.add("stitching function of %d functions needs %d /Bounds, has %v", k, k-1, fn["Bounds"])
		} else {
			for i := range b {
				if i > 0 && b[i] < b[i-1] {
					p.add("/Bounds not in increasing order: %v", b)
					break
				}
				if len(dom) == 2 && (b[i] < dom[0] || b[i] > dom[1]) {
					p.add("/Bounds value %v outside the /Domain %v", b[i], dom)
				}
			}
		}
		if _, ok := numArray(f.Resolve(fn["Encode"]), 2*k); !ok {
			p.add("stitching function of %d functions needs %d /Encode values, has %v", k, 2*k, fn["Encode"])
		}
		for _, s := range fns {
			sd := f.Dict(s)
			if sd == nil {
				p.add("stitched function %v is not a dictionary", s)
				continue
			}
			p = append(p, f.checkFunction(sd, ncomp, depth+1)...)
		}
	default:
		p.add("/FunctionType %d not expected", ft)
	}
	return p
}

func (f *File) checkImage(s *Stream, mask bool) Problems {
	var p Problems
	w, ok1 := s.Dict["Width"].(int64)
	h, ok2 := s.Dict["Height"].(int64)
	bpc, ok3 := s.Dict["BitsPerComponent"].(int64)
	if !ok1 || !ok2 || !ok3 || w <= 0 || h <= 0 {
		p.add("/Width %v /Height %v /BitsPerComponent %v", s.Dict["Width"], s.Dict["Height"], s.Dict["BitsPerComponent"])
		return p
	}
	ncomp := int64(0)
	switch f.Resolve(s.Dict["ColorSpace"]) {
	case Name("DeviceRGB"):
		ncomp = 3
	case Name("DeviceGray"):
		ncomp = 1
	case Name("DeviceCMYK"):
		ncomp = 4
	default:
		p.add("/ColorSpace is %v", s.Dict["ColorSpace"])
	}
	if mask && ncomp != 1 {
		p.add("soft mask image is not /DeviceGray")
	}
	data, err := s.Decode()
	if err == nil && ncomp != 0 {
		isDCT := false
		switch flt := s.Dict["Filter"].(type) {
		case Name:
			isDCT = flt == "DCTDecode"
		case Array:
			isDCT = len(flt) > 0 && flt[len(flt)-1] == Name("DCTDecode")
		}
		if isDCT {
			cfg, err := jpegConfig(data)
			if err != nil {
				p.add("DCT data: %v", err)
			} else if int64(cfg[0]) != w || int64(cfg[1]) != h {
				p.add("JPEG is %dx%d, the image dictionary says %dx%d", cfg[0], cfg[1], w, h)
			}
		} else {
			want := ((w*ncomp*bpc + 7) / 8) * h
			if int64(len(data)) != want {
				p.add("%dx%d image with %d components of %d bits needs %d bytes of sample data, the stream decodes to %d", w, h, ncomp, bpc, want, len(data))
			}
		}
	}
	if sm, present := s.Dict["SMask"]; present {
		ms, ok := f.Resolve(sm).(*Stream)
		if !ok || ms.Dict["Subtype"] != Name("Image") {
			p.add("/SMask is not an image XObject")
		} else {
			if ms.Dict["Width"] != s.Dict["Width"] || ms.Dict["Height"] != s.Dict["Height"] {
				// allowed by the format, but the writer always uses the same dimensions; only report a broken mask itself
			}
			for _, q := range f.checkImage(ms, true) {
				p.add("soft mask: %s", q)
			}
		}
	}
	return p
}
