package pdfread

import (
	"bytes"
	"fmt"
	"image/jpeg"
	"math"

	"verif/harness/dl"
	"verif/harness/geo"
	"verif/harness/oracle"
)

const mmPerPt = 25.4 / 72

type paintState struct {
	space   Name // DeviceGray, DeviceRGB, Pattern
	rgb     [3]float64
	pattern Name
}

type gstate struct {
	ctm          oracle.Mat
	fill, stroke paintState
	ca, CA       float64
	width        float64
	cap, join    int
	miter        float64
	dash         []float64
	phase        float64
	clip         [][]oracle.Poly // intersection of these
}

// Interpret executes a page's content stream per ISO 32000-1 §8 and returns what it paints, in millimetres with the origin at the bottom-left corner of the MediaBox. Text objects are skipped (their state changes are kept); their number is returned.
func (f *File) Interpret(pg *Page) (*dl.Doc, int, error) {
	doc := &dl.Doc{W: (pg.MediaBox[2] - pg.MediaBox[0]) * mmPerPt, H: (pg.MediaBox[3] - pg.MediaBox[1]) * mmPerPt}
	gs := gstate{ctm: oracle.Scale(mmPerPt, mmPerPt).Mul(oracle.Translate(-pg.MediaBox[0], -pg.MediaBox[1])), ca: 1, CA: 1, width: 1, miter: 10}
	gs.fill.space, gs.stroke.space = "DeviceGray", "DeviceGray"
	base := gs.ctm // default user space -> mm: pattern space
	var stack []gstate
	b := &geo.Builder{}
	pendingClip := 0 // 1 nonzero, 2 evenodd
	texts := 0
	inText := false
	n := func(v any) float64 { x, _ := Num(v); return x }
	pt := func(x, y float64) (float64, float64) {
		p := gs.ctm.Apply(oracle.Pt{X: x, Y: y})
		return p.X, p.Y
	}
	mkPaint := func(ps paintState, alpha float64) (*dl.Paint, error) {
		if ps.space == "Pattern" {
			pd := f.Dict(f.Dict(pg.Resources["Pattern"])[ps.pattern])
			if pd == nil {
				return nil, fmt.Errorf("pattern /%s not found", ps.pattern)
			}
			g, err := f.gradient(pd, base)
			if err != nil {
				return nil, fmt.Errorf("pattern /%s: %v", ps.pattern, err)
			}
			return &dl.Paint{Grad: g, Color: dl.RGBA{A: alpha}}, nil
		}
		return &dl.Paint{Color: dl.RGBA{R: ps.rgb[0], G: ps.rgb[1], B: ps.rgb[2], A: alpha}}, nil
	}
	paintPath := func(fill, evenodd, stroke, closeFirst bool) error {
		if closeFirst {
			b.Close()
		}
		it := dl.Item{Segs: b.Segs, EvenOdd: evenodd}
		var err error
		if fill {
			if it.Fill, err = mkPaint(gs.fill, gs.ca); err != nil {
				return err
			}
		}
		if stroke {
			p, err := mkPaint(gs.stroke, gs.CA)
			if err != nil {
				return err
			}
			// line width, dashes are in user space at the time of stroking
			sx := math.Hypot(gs.ctm[0], gs.ctm[3])
			sy := math.Hypot(gs.ctm[1], gs.ctm[4])
			dot := gs.ctm[0]*gs.ctm[1] + gs.ctm[3]*gs.ctm[4]
			if math.Abs(sx-sy) > 1e-6*sx || math.Abs(dot) > 1e-6*sx*sy {
				return fmt.Errorf("stroke under a non-similarity CTM %v is not representable", gs.ctm)
			}
			st := &dl.Stroke{Paint: *p, Width: gs.width * sx, Cap: gs.cap, MiterLimit: gs.miter, DashOffset: gs.phase * sx}
			switch gs.join {
			case 0:
				st.Join = dl.JoinMiter
			case 1:
				st.Join = dl.JoinRound
			case 2:
				st.Join = dl.JoinBevel
			}
			for _, d := range gs.dash {
				st.Dashes = append(st.Dashes, d*sx)
			}
			if len(st.Dashes)%2 == 1 {
				st.Dashes = append(st.Dashes, st.Dashes...)
			}
			it.Stroke = st
		}
		if pendingClip != 0 {
			gs.clip = append(gs.clip[:len(gs.clip):len(gs.clip)], oracle.Sample(b.Segs, 16))
			pendingClip = 0
		}
		if (it.Fill != nil || it.Stroke != nil) && len(b.Segs) > 0 {
			if len(gs.clip) > 0 {
				return fmt.Errorf("path painted under a clipping path: not representable")
			}
			doc.Items = append(doc.Items, it)
		}
		b = &geo.Builder{}
		return nil
	}
	for _, op := range pg.Ops {
		a := op.Args
		if spec, ok := opTable[op.Name]; !ok || (!spec.vararg && len(a) != len(spec.args)) {
			return nil, 0, fmt.Errorf("operator %q with operands %v", op.Name, a)
		}
		switch op.Name {
		case "q":
			stack = append(stack, gs)
		case "Q":
			if len(stack) == 0 {
				return nil, 0, fmt.Errorf("Q without q")
			}
			gs = stack[len(stack)-1]
			stack = stack[:len(stack)-1]
		case "cm":
			m := oracle.Mat{n(a[0]), n(a[2]), n(a[4]), n(a[1]), n(a[3]), n(a[5])}
			gs.ctm = gs.ctm.Mul(m)
		case "w":
			gs.width = n(a[0])
		case "J":
			gs.cap = int(n(a[0]))
		case "j":
			gs.join = int(n(a[0]))
		case "M":
			gs.miter = n(a[0])
		case "d":
			gs.dash = nil
			for _, e := range a[0].(Array) {
				gs.dash = append(gs.dash, n(e))
			}
			gs.phase = n(a[1])
		case "gs":
			d := f.Dict(f.Dict(pg.Resources["ExtGState"])[a[0].(Name)])
			if d == nil {
				return nil, 0, fmt.Errorf("ExtGState /%s not found", a[0])
			}
			if v, ok := d["ca"]; ok {
				gs.ca = n(v)
			}
			if v, ok := d["CA"]; ok {
				gs.CA = n(v)
			}
			for k := range d {
				switch k {
				case "ca", "CA", "Type":
				default:
					return nil, 0, fmt.Errorf("ExtGState key /%s not handled", k)
				}
			}
		case "g":
			gs.fill = paintState{space: "DeviceGray", rgb: [3]float64{n(a[0]), n(a[0]), n(a[0])}}
		case "G":
			gs.stroke = paintState{space: "DeviceGray", rgb: [3]float64{n(a[0]), n(a[0]), n(a[0])}}
		case "rg":
			gs.fill = paintState{space: "DeviceRGB", rgb: [3]float64{n(a[0]), n(a[1]), n(a[2])}}
		case "RG":
			gs.stroke = paintState{space: "DeviceRGB", rgb: [3]float64{n(a[0]), n(a[1]), n(a[2])}}
		case "cs":
			gs.fill = paintState{space: a[0].(Name)}
		case "CS":
			gs.stroke = paintState{space: a[0].(Name)}
		case "scn", "SCN", "sc", "SC":
			ps := &gs.fill
			if op.Name == "SCN" || op.Name == "SC" {
				ps = &gs.stroke
			}
			switch ps.space {
			case "Pattern":
				name, ok := a[len(a)-1].(Name)
				if !ok {
					return nil, 0, fmt.Errorf("%s in the Pattern colour space without a pattern name", op.Name)
				}
				ps.pattern = name
			case "DeviceRGB":
				if len(a) != 3 {
					return nil, 0, fmt.Errorf("%s with %d components in DeviceRGB", op.Name, len(a))
				}
				ps.rgb = [3]float64{n(a[0]), n(a[1]), n(a[2])}
			case "DeviceGray":
				if len(a) != 1 {
					return nil, 0, fmt.Errorf("%s with %d components in DeviceGray", op.Name, len(a))
				}
				ps.rgb = [3]float64{n(a[0]), n(a[0]), n(a[0])}
			default:
				return nil, 0, fmt.Errorf("colour space /%s not handled", ps.space)
			}
		case "k", "K", "ri", "i", "sh", "d0", "d1", "BX", "EX", "MP", "DP", "BMC", "BDC", "EMC":
			return nil, 0, fmt.Errorf("operator %s not handled", op.Name)
		case "m":
			x, y := pt(n(a[0]), n(a[1]))
			b.MoveTo(x, y)
		case "l":
			x, y := pt(n(a[0]), n(a[1]))
			b.ReopenIfClosed()
			b.LineTo(x, y)
		case "c":
			x1, y1 := pt(n(a[0]), n(a[1]))
			x2, y2 := pt(n(a[2]), n(a[3]))
			x3, y3 := pt(n(a[4]), n(a[5]))
			b.ReopenIfClosed()
			b.CubeTo(x1, y1, x2, y2, x3, y3)
		case "v":
			x2, y2 := pt(n(a[0]), n(a[1]))
			x3, y3 := pt(n(a[2]), n(a[3]))
			b.ReopenIfClosed()
			b.CubeTo(b.Cur.X, b.Cur.Y, x2, y2, x3, y3)
		case "y":
			x1, y1 := pt(n(a[0]), n(a[1]))
			x3, y3 := pt(n(a[2]), n(a[3]))
			b.ReopenIfClosed()
			b.CubeTo(x1, y1, x3, y3, x3, y3)
		case "h":
			b.Close()
		case "re":
			x, y, w, h := n(a[0]), n(a[1]), n(a[2]), n(a[3])
			x0, y0 := pt(x, y)
			x1, y1 := pt(x+w, y)
			x2, y2 := pt(x+w, y+h)
			x3, y3 := pt(x, y+h)
			b.MoveTo(x0, y0)
			b.LineTo(x1, y1)
			b.LineTo(x2, y2)
			b.LineTo(x3, y3)
			b.Close()
		case "W":
			pendingClip = 1
		case "W*":
			pendingClip = 2
		case "n":
			if err := paintPath(false, false, false, false); err != nil {
				return nil, 0, err
			}
		case "f", "F":
			if err := paintPath(true, false, false, false); err != nil {
				return nil, 0, err
			}
		case "f*":
			if err := paintPath(true, true, false, false); err != nil {
				return nil, 0, err
			}
		case "S":
			if err := paintPath(false, false, true, false); err != nil {
				return nil, 0, err
			}
		case "s":
			if err := paintPath(false, false, true, true); err != nil {
				return nil, 0, err
			}
		case "B":
			if err := paintPath(true, false, true, false); err != nil {
				return nil, 0, err
			}
		case "B*":
			if err := paintPath(true, true, true, false); err != nil {
				return nil, 0, err
			}
		case "b":
			if err := paintPath(true, false, true, true); err != nil {
				return nil, 0, err
			}
		case "b*":
			if err := paintPath(true, true, true, true); err != nil {
				return nil, 0, err
			}
		case "BT":
			inText = true
			texts++
		case "ET":
			inText = false
		case "Tc", "Tw", "Tz", "TL", "Tf", "Tr", "Ts", "Td", "TD", "Tm", "T*", "Tj", "TJ", "'", "\"":
			if !inText && (op.Name == "Tj" || op.Name == "TJ") {
				return nil, 0, fmt.Errorf("text shown outside a text object")
			}
		case "Do":
			s, ok := f.Resolve(f.Dict(pg.Resources["XObject"])[a[0].(Name)]).(*Stream)
			if !ok || s.Dict["Subtype"] != Name("Image") {
				return nil, 0, fmt.Errorf("XObject /%s is not an image", a[0])
			}
			im, err := f.image(s)
			if err != nil {
				return nil, 0, fmt.Errorf("image /%s: %v", a[0], err)
			}
			im.M = gs.ctm.Mul(oracle.Translate(0, 1)).Mul(oracle.Scale(1/float64(im.W), -1/float64(im.H)))
			// a clipping path must leave the whole image visible, otherwise the picture is not representable here
			for _, clip := range gs.clip {
				for _, c := range [][2]float64{{0.02, 0.02}, {0.98, 0.02}, {0.98, 0.98}, {0.02, 0.98}, {0.5, 0.5}} {
					q := gs.ctm.Apply(oracle.Pt{X: c[0], Y: c[1]})
					if w, _ := oracle.Winding(clip, q); w == 0 {
						return nil, 0, fmt.Errorf("image /%s is cut by the clipping path at %v", a[0], q)
					}
				}
			}
			doc.Items = append(doc.Items, dl.Item{Image: im})
		default:
			return nil, 0, fmt.Errorf("operator %s not handled", op.Name)
		}
	}
	return doc, texts, nil
}

// gradient converts a shading pattern (type 2 pattern with an axial or radial shading whose function is exponential with N=1 or a stitching of such functions) into gradient stops.
func (f *File) gradient(pd Dict, base oracle.Mat) (*dl.Gradient, error) {
	if pt, _ := pd["PatternType"].(int64); pt != 2 {
		return nil, fmt.Errorf("/PatternType %v", pd["PatternType"])
	}
	m := base
	if mv, ok := pd["Matrix"]; ok {
		a, ok := numArray(f.Resolve(mv), 6)
		if !ok {
			return nil, fmt.Errorf("/Matrix %v", mv)
		}
		m = m.Mul(oracle.Mat{a[0], a[2], a[4], a[1], a[3], a[5]})
	}
	sh := f.Dict(pd["Shading"])
	if sh == nil {
		return nil, fmt.Errorf("no /Shading")
	}
	if f.Resolve(sh["ColorSpace"]) != Name("DeviceRGB") {
		return nil, fmt.Errorf("shading /ColorSpace %v", sh["ColorSpace"])
	}
	ext, ok := f.Resolve(sh["Extend"]).(Array)
	if !ok || len(ext) != 2 || ext[0] != true || ext[1] != true {
		return nil, fmt.Errorf("shading /Extend %v: only [true true] is representable", sh["Extend"])
	}
	if d, present := sh["Domain"]; present {
		if dd, ok := numArray(f.Resolve(d), 2); !ok || dd[0] != 0 || dd[1] != 1 {
			return nil, fmt.Errorf("shading /Domain %v", d)
		}
	}
	g := &dl.Gradient{}
	scale := math.Sqrt(math.Abs(m.Det()))
	switch st, _ := sh["ShadingType"].(int64); st {
	case 2:
		c, ok := numArray(f.Resolve(sh["Coords"]), 4)
		if !ok {
			return nil, fmt.Errorf("/Coords %v", sh["Coords"])
		}
		p0, p1 := m.Apply(oracle.Pt{X: c[0], Y: c[1]}), m.Apply(oracle.Pt{X: c[2], Y: c[3]})
		g.X0, g.Y0, g.X1, g.Y1 = p0.X, p0.Y, p1.X, p1.Y
	case 3:
		c, ok := numArray(f.Resolve(sh["Coords"]), 6)
		if !ok {
			return nil, fmt.Errorf("/Coords %v", sh["Coords"])
		}
		p0, p1 := m.Apply(oracle.Pt{X: c[0], Y: c[1]}), m.Apply(oracle.Pt{X: c[3], Y: c[4]})
		g.Radial = true
		g.X0, g.Y0, g.R0, g.X1, g.Y1, g.R1 = p0.X, p0.Y, c[2]*scale, p1.X, p1.Y, c[5]*scale
	default:
		return nil, fmt.Errorf("/ShadingType %v", sh["ShadingType"])
	}
	fn := f.Dict(sh["Function"])
	if fn == nil {
		return nil, fmt.Errorf("no /Function")
	}
	stops, err := f.functionStops(fn, 0, 1)
	if err != nil {
		return nil, err
	}
	g.Stops = stops
	return g, nil
}

// functionStops samples a 1-input function that is piecewise linear in t into stops over [lo,hi].
func (f *File) functionStops(fn Dict, lo, hi float64) ([]dl.Stop, error) {
	ft, _ := fn["FunctionType"].(int64)
	dom, ok := numArray(f.Resolve(fn["Domain"]), 2)
	if !ok {
		return nil, fmt.Errorf("function /Domain %v", fn["Domain"])
	}
	switch ft {
	case 2:
		if nn, _ := Num(fn["N"]); nn != 1 {
			return nil, fmt.Errorf("exponential function with /N %v is not piecewise linear", fn["N"])
		}
		c0, c1 := []float64{0}, []float64{1}
		if v, ok := fn["C0"]; ok {
			c0, _ = numArray(f.Resolve(v), -1)
		}
		if v, ok := fn["C1"]; ok {
			c1, _ = numArray(f.Resolve(v), -1)
		}
		if len(c0) != 3 || len(c1) != 3 {
			return nil, fmt.Errorf("function colours %v %v are not RGB", c0, c1)
		}
		// the sub-domain [dom0,dom1] is mapped onto [lo,hi] by the caller's Encode (checked there)
		_ = dom
		cl := func(x float64) float64 { return math.Max(0, math.Min(1, x)) }
		return []dl.Stop{
			{Off: lo, C: dl.RGBA{R: cl(c0[0]), G: cl(c0[1]), B: cl(c0[2]), A: 1}},
			{Off: hi, C: dl.RGBA{R: cl(c1[0]), G: cl(c1[1]), B: cl(c1[2]), A: 1}},
		}, nil
	case 3:
		fns, _ := f.Resolve(fn["Functions"]).(Array)
		k := len(fns)
		bounds, ok1 := numArray(f.Resolve(fn["Bounds"]), k-1)
		enc, ok2 := numArray(f.Resolve(fn["Encode"]), 2*k)
		if k == 0 || !ok1 || !ok2 {
			return nil, fmt.Errorf("stitching function with %d functions, /Bounds %v, /Encode %v", k, fn["Bounds"], fn["Encode"])
		}
		if dom[0] != lo || dom[1] != hi {
			return nil, fmt.Errorf("stitching function /Domain %v, expected [%v %v]", dom, lo, hi)
		}
		var out []dl.Stop
		for i, s := range fns {
			a, b := dom[0], dom[1]
			if i > 0 {
				a = bounds[i-1]
			}
			if i < k-1 {
				b = bounds[i]
			}
			sd := f.Dict(s)
			if sd == nil {
				return nil, fmt.Errorf("stitched function %d is not a dictionary", i)
			}
			sdom, ok := numArray(f.Resolve(sd["Domain"]), 2)
			if !ok || enc[2*i] != sdom[0] || enc[2*i+1] != sdom[1] {
				return nil, fmt.Errorf("stitched function %d: /Encode [%v %v] does not cover its /Domain %v", i, enc[2*i], enc[2*i+1], sd["Domain"])
			}
			st, err := f.functionStops(sd, a, b)
			if err != nil {
				return nil, err
			}
			out = append(out, st...)
		}
		return out, nil
	}
	return nil, fmt.Errorf("/FunctionType %v", fn["FunctionType"])
}

// image decodes an image XObject (8-bit DeviceRGB or DeviceGray, optional soft mask) into straight-alpha pixels.
func (f *File) image(s *Stream) (*dl.Image, error) {
	w, _ := s.Dict["Width"].(int64)
	h, _ := s.Dict["Height"].(int64)
	bpc, _ := s.Dict["BitsPerComponent"].(int64)
	if w <= 0 || h <= 0 || bpc != 8 {
		return nil, fmt.Errorf("%dx%d, %d bits", w, h, bpc)
	}
	data, err := s.Decode()
	if err != nil {
		return nil, err
	}
	im := &dl.Image{W: int(w), H: int(h), Pix: make([]dl.RGBA, w*h)}
	isDCT := s.Dict["Filter"] == Name("DCTDecode")
	if isDCT {
		j, err := jpeg.Decode(bytes.NewReader(data))
		if err != nil {
			return nil, err
		}
		if j.Bounds().Dx() != int(w) || j.Bounds().Dy() != int(h) {
			return nil, fmt.Errorf("JPEG size differs from the dictionary")
		}
		for y := 0; y < int(h); y++ {
			for x := 0; x < int(w); x++ {
				r, g, b, _ := j.At(j.Bounds().Min.X+x, j.Bounds().Min.Y+y).RGBA()
				im.Pix[y*int(w)+x] = dl.RGBA{R: float64(r) / 65535, G: float64(g) / 65535, B: float64(b) / 65535, A: 1}
			}
		}
	} else {
		switch f.Resolve(s.Dict["ColorSpace"]) {
		case Name("DeviceRGB"):
			if int64(len(data)) != w*h*3 {
				return nil, fmt.Errorf("%d bytes of sample data for %dx%d RGB", len(data), w, h)
			}
			for i := range im.Pix {
				im.Pix[i] = dl.RGBA{R: float64(data[3*i]) / 255, G: float64(data[3*i+1]) / 255, B: float64(data[3*i+2]) / 255, A: 1}
			}
		case Name("DeviceGray"):
			if int64(len(data)) != w*h {
				return nil, fmt.Errorf("%d bytes of sample data for %dx%d gray", len(data), w, h)
			}
			for i := range im.Pix {
				v := float64(data[i]) / 255
				im.Pix[i] = dl.RGBA{R: v, G: v, B: v, A: 1}
			}
		default:
			return nil, fmt.Errorf("/ColorSpace %v", s.Dict["ColorSpace"])
		}
	}
	if sm, ok := s.Dict["SMask"]; ok {
		ms, ok := f.Resolve(sm).(*Stream)
		if !ok {
			return nil, fmt.Errorf("/SMask is not a stream")
		}
		mk, err := f.image(ms)
		if err != nil {
			return nil, fmt.Errorf("soft mask: %v", err)
		}
		if mk.W != im.W || mk.H != im.H {
			return nil, fmt.Errorf("soft mask size differs")
		}
		for i := range im.Pix {
			im.Pix[i].A = mk.Pix[i].R
		}
	}
	return im, nil
}
