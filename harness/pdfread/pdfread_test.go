package pdfread

import (
	"bytes"
	"fmt"
	"os"
	"strings"
	"testing"
)

// build assembles a PDF from object bodies, computing offsets itself; tweak lets a test damage the result.
func build(objs []string, xrefShift map[int]int) []byte {
	var b bytes.Buffer
	b.WriteString("%PDF-1.7\n%\xe2\xe3\xcf\xd3\n")
	offs := make([]int, len(objs))
	for i, o := range objs {
		offs[i] = b.Len()
		fmt.Fprintf(&b, "%d 0 obj\n%s\nendobj\n", i+1, o)
	}
	x := b.Len()
	fmt.Fprintf(&b, "xref\n0 %d\n0000000000 65535 f \n", len(objs)+1)
	for i, o := range offs {
		fmt.Fprintf(&b, "%010d 00000 n \n", o+xrefShift[i+1])
	}
	fmt.Fprintf(&b, "trailer\n<</Root 1 0 R/Size %d>>\nstartxref\n%d\n%%%%EOF\n", len(objs)+1, x)
	return b.Bytes()
}

func stream(dict, data string) string {
	return fmt.Sprintf("<<%s/Length %d>>stream\n%s\nendstream", dict, len(data), data)
}

func good() []string {
	return []string{
		"<</Type/Catalog/Pages 2 0 R>>",
		"<</Type/Pages/Kids[3 0 R]/Count 1>>",
		"<</Type/Page/Parent 2 0 R/MediaBox[0 0 100 100]/Resources<</ExtGState<</A0<</ca .5/CA .5>>>>>>/Contents 4 0 R>>",
		stream("", "q /A0 gs 1 0 0 rg 0 0 m 10 0 l 10 10 l h f* Q BT ET"),
	}
}

func problems(b []byte) Problems {
	f, p := Parse(b)
	if len(p) > 0 {
		return p
	}
	pages, p2 := f.Validate()
	p = append(p, p2...)
	for _, pg := range pages {
		p = append(p, f.CheckResources(pg)...)
	}
	return p
}

func TestAcceptsValid(t *testing.T) {
	if p := problems(build(good(), nil)); len(p) != 0 {
		t.Fatalf("valid file rejected: %v", p)
	}
}

func TestRejects(t *testing.T) {
	cases := []struct {
		name string
		mut  func(o []string) ([]string, map[int]int)
		want string
	}{
		{"xref offset", func(o []string) ([]string, map[int]int) { return o, map[int]int{3: 2} }, "xref"},
		{"xref offset to white", func(o []string) ([]string, map[int]int) { return o, map[int]int{2: -1} }, "xref"},
		{"length short", func(o []string) ([]string, map[int]int) {
			n := strings.Index(o[3], "/Length ")
			var l int
			fmt.Sscanf(o[3][n:], "/Length %d", &l)
			o[3] = strings.Replace(o[3], fmt.Sprintf("/Length %d", l), fmt.Sprintf("/Length %d", l-2), 1)
			return o, nil
		}, "endstream"},
		{"dangling ref", func(o []string) ([]string, map[int]int) {
			o[2] = strings.Replace(o[2], "/Contents 4 0 R", "/Contents 9 0 R", 1)
			return o, nil
		}, "does not resolve"},
		{"count", func(o []string) ([]string, map[int]int) { o[1] = strings.Replace(o[1], "Count 1", "Count 2", 1); return o, nil }, "/Count"},
		{"missing gs", func(o []string) ([]string, map[int]int) { o[3] = stream("", "/A1 gs"); return o, nil }, "ExtGState"},
		{"unbalanced q", func(o []string) ([]string, map[int]int) { o[3] = stream("", "q q Q"); return o, nil }, "unmatched q"},
		{"Q underflow", func(o []string) ([]string, map[int]int) { o[3] = stream("", "q Q Q"); return o, nil }, "Q without"},
		{"BT unbalanced", func(o []string) ([]string, map[int]int) { o[3] = stream("", "BT"); return o, nil }, "inside a text"},
		{"unknown operator", func(o []string) ([]string, map[int]int) { o[3] = stream("", "0 0 m 1 1 l S*"); return o, nil }, "unknown operator"},
		{"NaN", func(o []string) ([]string, map[int]int) { o[3] = stream("", "NaN g"); return o, nil }, "unknown operator"},
		{"operands", func(o []string) ([]string, map[int]int) { o[3] = stream("", "0 m"); return o, nil }, "operands"},
		{"ET alone", func(o []string) ([]string, map[int]int) { o[3] = stream("", "ET"); return o, nil }, "not allowed"},
		{"BT nested", func(o []string) ([]string, map[int]int) { o[3] = stream("", "BT BT ET ET"); return o, nil }, "not allowed"},
		{"bad flate", func(o []string) ([]string, map[int]int) { o[3] = stream("/Filter/FlateDecode", "xxxx"); return o, nil }, "decode"},
		{"parent", func(o []string) ([]string, map[int]int) { o[2] = strings.Replace(o[2], "/Parent 2 0 R", "/Parent 1 0 R", 1); return o, nil }, "/Parent"},
	}
	for _, c := range cases {
		o, shift := c.mut(good())
		p := problems(build(o, shift))
		if len(p) == 0 || !strings.Contains(strings.Join(p, "\n"), c.want) {
			t.Errorf("%s: want a problem mentioning %q, got %v", c.name, c.want, p)
		}
	}
}

func TestStrings(t *testing.T) {
	l := &lexer{b: []byte(`(a\(b\)c\\ \101\n(x) ` + "\r\n" + `z)<48 65 6C6c6F7>/A#20B`)}
	v, _ := l.next()
	if string(v.(String)) != "a(b)c\\ A\n(x) \nz" {
		t.Errorf("literal: %q", v)
	}
	v, _ = l.next()
	if string(v.(String)) != "Hellop" {
		t.Errorf("hex: %q", v)
	}
	v, _ = l.next()
	if v.(Name) != "A B" {
		t.Errorf("name: %q", v)
	}
	if TextString(String("\xfe\xff\x00a\x20\xac")) != "a€" {
		t.Error("utf16")
	}
}

func TestIndependence(t *testing.T) {
	for _, f := range []string{"pdfread.go", "content.go", "validate.go"} {
		b, _ := os.ReadFile(f)
		if bytes.Contains(b, []byte("tdewolff")) {
			t.Errorf("%s imports the code under test", f)
		}
	}
}
