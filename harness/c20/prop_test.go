package c20

import (
	"time"
	"bytes"
	"crypto/sha256"
	"fmt"
	"os"
	"path/filepath"
	"strings"
	"sync"
	"testing"

	"github.com/tdewolff/canvas"
	"github.com/tdewolff/canvas/renderers/rasterizer"
	"github.com/tdewolff/canvas/renderers/svg"
	"pgregory.net/rapid"

	"verif/harness/bgen"
	"verif/harness/gen"
	"verif/harness/vf"
)

func TestMain(m *testing.M) { vf.Main(m, "C20") }

// Job is one call on inputs of its own; its result is rendered as a string.
type Job struct {
	Kind string       `json:"kind"` // bool, settle, stroke, offset, flatten, dash, text, richtext, raster, svg, loadfont
	P    gen.PathSpec `json:"p,omitempty"`
	Q    gen.PathSpec `json:"q,omitempty"`
	Op   int          `json:"op,omitempty"`
	F    []float64    `json:"f,omitempty"`
	S    string       `json:"s,omitempty"`
}

type Case struct {
	Jobs       []Job `json:"jobs"`
	Goroutines int   `json:"goroutines"`
	Reps       int   `json:"reps"`
}

var (
	once  sync.Once
	fonts []*canvas.FontFamily
	ferr  error
)

func setup() error {
	once.Do(func() {
		for i, f := range []string{"/repo/resources/DejaVuSerif.ttf", "/repo/resources/EBGaramond12-Regular.otf"} {
			fam := canvas.NewFontFamily([]string{"dejavu-serif", "eb-garamond"}[i])
			if err := fam.LoadFontFile(f, canvas.FontRegular); err != nil {
				ferr = err
				return
			}
			fonts = append(fonts, fam)
		}
	})
	return ferr
}

var styles = []canvas.FontStyle{canvas.FontRegular, canvas.FontRegular, canvas.FontBold, canvas.FontItalic, canvas.FontBold | canvas.FontItalic, canvas.FontLight, canvas.FontExtraBold}

var texts = []string{"Hello world", "fi office AVATAR To Wa", "0123456789", "The quick brown fox jumps over the lazy dog", "Ünï q̣ x̂́", "αβγ Жук", "a b c d e f g h i j k l m n o p", "wish­ing beau­ti­ful daugh­ters"}

func genJob(t *rapid.T) Job {
	switch k := rapid.IntRange(0, 13).Draw(t, "kind"); {
	case k <= 3:
		p, q := bgen.Pair(t, rapid.Bool().Draw(t, "curved"), false)
		return Job{Kind: "bool", P: p, Q: q, Op: rapid.IntRange(0, 4).Draw(t, "op")}
	case k == 4:
		// an operand against itself: coinciding edges leave sweep points with windings of the other path behind
		p := bgen.Operand(t, false, false)
		return Job{Kind: "bool", P: p, Q: p, Op: rapid.IntRange(0, 4).Draw(t, "op")}
	case k == 5:
		return Job{Kind: "settle", P: bgen.Operand(t, rapid.Bool().Draw(t, "curved"), false), Op: rapid.IntRange(0, 3).Draw(t, "rule")}
	case k == 6:
		return Job{Kind: "stroke", P: gen.Path(t, gen.DefaultOpts()), Op: rapid.IntRange(0, 8).Draw(t, "capjoin"), F: []float64{float64(rapid.IntRange(1, 12).Draw(t, "w")) / 4, strokeTols[rapid.IntRange(0, len(strokeTols)-1).Draw(t, "stol")]}}
	case k == 7:
		return Job{Kind: "offset", P: bgen.Operand(t, true, true), F: []float64{float64(rapid.IntRange(-8, 8).Draw(t, "d")) / 8, strokeTols[rapid.IntRange(0, len(strokeTols)-1).Draw(t, "otol")]}}
	case k == 8:
		return Job{Kind: "flatten", P: gen.Path(t, gen.DefaultOpts()), F: []float64{[]float64{0.5, 0.1, 0.01}[rapid.IntRange(0, 2).Draw(t, "tol")]}}
	case k == 9:
		return Job{Kind: "dash", P: gen.Path(t, gen.DefaultOpts()), F: []float64{float64(rapid.IntRange(-8, 8).Draw(t, "off")) / 4, float64(rapid.IntRange(1, 8).Draw(t, "d1")) / 4, float64(rapid.IntRange(1, 8).Draw(t, "d2")) / 4}}
	case k == 10:
		return Job{Kind: "text", Op: rapid.IntRange(0, 1).Draw(t, "font"), S: texts[rapid.IntRange(0, len(texts)-1).Draw(t, "text")], F: []float64{float64(rapid.IntRange(6, 24).Draw(t, "size")), float64(rapid.IntRange(0, len(styles)-1).Draw(t, "style"))}}
	case k == 11:
		return Job{Kind: "richtext", Op: rapid.IntRange(0, 1).Draw(t, "font"), S: texts[rapid.IntRange(0, len(texts)-1).Draw(t, "text")] + " " + texts[rapid.IntRange(0, len(texts)-1).Draw(t, "text2")], F: []float64{float64(rapid.IntRange(6, 24).Draw(t, "size")), float64(rapid.IntRange(2, 12).Draw(t, "width")) * 10, float64(rapid.IntRange(0, 3).Draw(t, "align"))}}
	case k == 12:
		return Job{Kind: []string{"raster", "svg"}[rapid.IntRange(0, 1).Draw(t, "backend")], P: bgen.Operand(t, true, false), Op: rapid.IntRange(0, 1).Draw(t, "font"), S: texts[rapid.IntRange(0, 2).Draw(t, "text")], F: []float64{float64(rapid.IntRange(1, 8).Draw(t, "w")) / 4}}
	default:
		return Job{Kind: "loadfont", Op: rapid.IntRange(0, 1).Draw(t, "font")}
	}
}

func genCase(t *rapid.T) Case {
	var c Case
	n := rapid.IntRange(3, 10).Draw(t, "njobs")
	for i := 0; i < n; i++ {
		c.Jobs = append(c.Jobs, genJob(t))
	}
	c.Goroutines = rapid.IntRange(2, 12).Draw(t, "goroutines")
	c.Reps = rapid.IntRange(2, 6).Draw(t, "reps")
	return c
}

var caps = []canvas.Capper{canvas.ButtCap, canvas.RoundCap, canvas.SquareCap}
var joins = []canvas.Joiner{canvas.BevelJoin, canvas.RoundJoin, canvas.MiterJoin}
var rules = []canvas.FillRule{canvas.NonZero, canvas.EvenOdd, canvas.Positive, canvas.Negative}

// run executes a job on freshly built inputs and returns its result; panics are part of the result (a call must behave the same way alone and in company).
// tolerances of the Stroke and Offset jobs: the package default, coarser and finer ones
var strokeTols = []float64{0.01, 0.01, 0.1, 0.001, 0.0005}

func tolOf(j Job) float64 {
	if len(j.F) > 1 {
		return j.F[1]
	}
	return 0.01 // cases recorded before the tolerance was generated
}

func run(j Job) (res string) {
	defer func() {
		if r := recover(); r != nil {
			res = fmt.Sprintf("panic: %v", r)
		}
	}()
	switch j.Kind {
	case "bool":
		p, q := j.P.Build(), j.Q.Build()
		switch j.Op {
		case 0:
			return p.And(q).String()
		case 1:
			return p.Or(q).String()
		case 2:
			return p.Xor(q).String()
		case 3:
			return p.Not(q).String()
		default:
			return p.DivideBy(q).String()
		}
	case "settle":
		return j.P.Build().Settle(rules[j.Op]).String()
	case "stroke":
		return j.P.Build().Stroke(j.F[0], caps[j.Op%3], joins[j.Op/3], tolOf(j)).String()
	case "offset":
		return j.P.Build().Offset(j.F[0], tolOf(j)).String()
	case "flatten":
		return j.P.Build().Flatten(j.F[0]).String()
	case "dash":
		return j.P.Build().Dash(j.F[0], j.F[1], j.F[2]).String()
	case "text":
		// the families hold the regular style only: the other styles are derived (faux bold / italic) on every request
		style := canvas.FontRegular
		if len(j.F) > 1 {
			style = styles[int(j.F[1])]
		}
		face := fonts[j.Op].Face(j.F[0], canvas.Black, style, canvas.FontNormal)
		return fmt.Sprintf("faux=%v/%v ", face.FauxBold, face.FauxItalic) + layout(canvas.NewTextLine(face, j.S, canvas.Left))
	case "richtext":
		face := fonts[j.Op].Face(j.F[0], canvas.Black, canvas.FontRegular, canvas.FontNormal)
		rt := canvas.NewRichText(face)
		rt.WriteString(j.S)
		return layout(rt.ToText(j.F[1], 0, []canvas.TextAlign{canvas.Left, canvas.Right, canvas.Center, canvas.Justify}[int(j.F[2])], canvas.Top, 0, 0))
	case "raster", "svg":
		cv := canvas.New(40, 30)
		ctx := canvas.NewContext(cv)
		ctx.SetFillColor(canvas.Red)
		ctx.SetStrokeColor(canvas.Blue)
		ctx.SetStrokeWidth(j.F[0])
		ctx.DrawPath(5, 5, j.P.Build())
		face := fonts[j.Op].Face(10, canvas.Black, canvas.FontRegular, canvas.FontNormal)
		ctx.DrawText(2, 25, canvas.NewTextLine(face, j.S, canvas.Left))
		if j.Kind == "svg" {
			var buf bytes.Buffer
			w := svg.New(&buf, 40, 30, &svg.Options{EmbedFonts: false})
			cv.RenderTo(w)
			w.Close()
			return buf.String()
		}
		img := rasterizer.Draw(cv, canvas.DPMM(2), canvas.LinearColorSpace{})
		return fmt.Sprintf("%x", sha256.Sum256(img.Pix))
	case "loadfont":
		f, err := canvas.LoadFontFile([]string{"/repo/resources/DejaVuSerif.ttf", "/repo/resources/EBGaramond12-Regular.otf"}[j.Op], canvas.FontRegular)
		if err != nil {
			return "error: " + err.Error()
		}
		return fmt.Sprintf("%s %d %d", f.Name(), f.SFNT.NumGlyphs(), f.SFNT.Head.UnitsPerEm)
	}
	return "unknown job"
}

func layout(t *canvas.Text) string {
	var sb strings.Builder
	t.WalkSpans(func(x, y float64, span canvas.TextSpan) {
		fmt.Fprintf(&sb, "(%.6f,%.6f w=%.6f %q:", x, y, span.Width, span.Text)
		for _, g := range span.Glyphs {
			fmt.Fprintf(&sb, " %d/%d/%d/%d", g.ID, g.XAdvance, g.XOffset, g.YOffset)
		}
		sb.WriteString(")")
	})
	return sb.String()
}

// coincident tells whether a sweep-line job has two contours that coincide (the same vertices in the same or in reverse order), within one operand or between the two. Such inputs are in the finding classes of C01 (F01d) and C02 (F02a); on some of them a tolerance square keeps a reference to a removed status node, and what the call returns then depends on whether that node has been recycled from the pool (finding F20a).
func coincident(j Job) bool {
	if j.Kind != "bool" && j.Kind != "settle" {
		return false
	}
	seen := map[string]bool{}
	dup := false
	add := func(ps gen.PathSpec) {
		var cur []string
		flush := func() {
			if len(cur) < 2 {
				cur = nil
				return
			}
			// canonical form: rotate to the smallest vertex, take the lexicographically smaller of both directions
			canon := func(v []string) string {
				best := ""
				for r := range v {
					t := strings.Join(append(append([]string{}, v[r:]...), v[:r]...), " ")
					if best == "" || t < best {
						best = t
					}
				}
				return best
			}
			rev := make([]string, len(cur))
			for i := range cur {
				rev[len(cur)-1-i] = cur[i]
			}
			a, b := canon(cur), canon(rev)
			if b < a {
				a = b
			}
			if seen[a] {
				dup = true
			}
			seen[a] = true
			cur = nil
		}
		for _, c := range ps.Cmds {
			switch c.Op {
			case "M":
				flush()
				cur = append(cur, fmt.Sprintf("%.6f,%.6f", c.A[0], c.A[1]))
			case "z":
			default:
				n := len(c.A)
				cur = append(cur, fmt.Sprintf("%s%.6f,%.6f", c.Op, c.A[n-2], c.A[n-1]))
			}
		}
		flush()
	}
	add(j.P)
	if j.Kind == "bool" {
		add(j.Q)
	}
	return dup
}

func clip(s string) string {
	if len(s) > 160 {
		return s[:160] + "..."
	}
	return s
}

// raceReports returns (and removes) what the race detector has written since the last call; the driver points GORACE log_path at VERIF_OUT/race-<shard>.
func raceReports() string {
	dir, shard := os.Getenv("VERIF_OUT"), os.Getenv("VERIF_SHARD")
	if dir == "" {
		return ""
	}
	files, _ := filepath.Glob(filepath.Join(dir, "race-"+shard+".*"))
	var out []byte
	for _, f := range files {
		b, _ := os.ReadFile(f)
		if len(b) > raceRead[f] {
			out = append(out, b[raceRead[f]:]...)
			raceRead[f] = len(b)
		}
	}
	return string(out)
}

var raceRead = map[string]int{}

func checkCase(c Case, r *vf.R) error {
	if err := setup(); err != nil {
		return vf.Errorf("fonts: %v", err)
	}
	raceReports() // anything reported before this case does not belong to it
	// 1. every job alone, in order
	ref := make([]string, len(c.Jobs))
	kinds := map[string]bool{}
	for i, j := range c.Jobs {
		ref[i] = run(j)
		kinds[j.Kind] = true
	}
	r.ClassIf(kinds["bool"] || kinds["settle"], "sweep-line")
	r.ClassIf(kinds["text"] || kinds["richtext"], "shared-font")
	if len(kinds) >= 3 {
		r.NonTrivial()
	}
	// 2. the same calls in reverse order and once more forwards: what ran before must not matter
	for i := len(c.Jobs) - 1; i >= 0; i-- {
		if got := run(c.Jobs[i]); got != ref[i] {
			if r.Excluded("F20a", coincident(c.Jobs[i])) {
				continue
			}
			return vf.Errorf("job %d (%s) returns a different result when the jobs are run in reverse order (after %d other calls):\n  alone:  %s\n  later:  %s", i, c.Jobs[i].Kind, len(c.Jobs)-1-i+len(c.Jobs), clip(ref[i]), clip(got))
		}
	}
	for i, j := range c.Jobs {
		if got := run(j); got != ref[i] {
			if r.Excluded("F20a", coincident(j)) {
				continue
			}
			return vf.Errorf("job %d (%s) returns a different result on the third sequential run:\n  first:  %s\n  third:  %s", i, j.Kind, clip(ref[i]), clip(got))
		}
	}
	// 3. all jobs at once from several goroutines
	type bad struct {
		job int
		got string
	}
	var mu sync.Mutex
	var bads []bad
	var wg sync.WaitGroup
	start := make(chan struct{})
	for g := 0; g < c.Goroutines; g++ {
		wg.Add(1)
		go func(g int) {
			defer wg.Done()
			<-start
			for rep := 0; rep < c.Reps; rep++ {
				for k := range c.Jobs {
					i := (k + g) % len(c.Jobs)
					if got := run(c.Jobs[i]); got != ref[i] {
						mu.Lock()
						bads = append(bads, bad{i, got})
						mu.Unlock()
					}
				}
			}
		}(g)
	}
	close(start)
	// calls that corrupt each other's sweep state may never return: after three minutes the batch is a violation
	// (the goroutines cannot be stopped, the shard ends here)
	vf.Watchdog("concurrent", c, 180*time.Second, func() { wg.Wait() })
	if rep := raceReports(); rep != "" {
		lines := strings.Split(rep, "\n")
		if len(lines) > 40 {
			lines = lines[:40]
		}
		return vf.Errorf("the race detector reports a data race while %d goroutines run %d independent jobs:\n%s", c.Goroutines, len(c.Jobs), strings.Join(lines, "\n"))
	}
	var real []bad
	for _, b := range bads {
		if r.Excluded("F20a", coincident(c.Jobs[b.job])) {
			continue
		}
		real = append(real, b)
	}
	bads = real
	if len(bads) > 0 {
		b := bads[0]
		return vf.Errorf("%d of %d concurrent calls return a result different from the call run alone; e.g. job %d (%s):\n  alone:       %s\n  concurrent:  %s", len(bads), c.Goroutines*c.Reps*len(c.Jobs), b.job, c.Jobs[b.job].Kind, clip(ref[b.job]), clip(b.got))
	}
	return nil
}

func TestConcurrent(t *testing.T) {
	vf.Run(t, vf.Prop[Case]{Sub: "concurrent", Gen: genCase, Check: checkCase, Cases: vf.N(150, 1500),
		// a race report is never what finding F20a (differing results on coinciding contours) describes
		OtherFailure: func(id string, err error) bool { return strings.Contains(err.Error(), "race detector reports") }})
}
