package c07

import (
	"math"
	"regexp"
	"strconv"
	"strings"
	"testing"

	"github.com/tdewolff/canvas"
	"pgregory.net/rapid"

	"verif/harness/gen"
	"verif/harness/oracle"
	"verif/harness/vf"
)

func TestMain(m *testing.M) { vf.Main(m, "C07") }

// ---------- path transform ----------

type TCase struct {
	Path gen.PathSpec `json:"path"`
	M    gen.MatSpec  `json:"m"`
}

func genT(t *rapid.T) TCase {
	o := gen.DefaultOpts()
	o.Lo, o.Hi = -10, 10
	o.MaxSub = 2
	o.MaxSeg = 4
	if rapid.IntRange(0, 2).Draw(t, "arcy") > 0 {
		o.Ops = "AAQCL"
	}
	return TCase{Path: gen.Path(t, o), M: gen.Matrix(t, false)}
}

func oMat(m gen.MatSpec) oracle.Mat { return oracle.Mat(m) }

func checkT(c TCase, r *vf.R) error {
	p := c.Path.Build()
	if p.Empty() {
		return nil
	}
	in, err := oracle.Decode(append([]float64(nil), p.Data()...))
	if err != nil {
		return vf.Errorf("input not decodable: %v", err)
	}
	m := oMat(c.M)
	if math.Abs(m.Det()) < 1e-6 {
		return nil
	}
	hasArc := c.Path.HasOp("A")
	r.ClassIf(hasArc, "has-arc")
	r.ClassIf(m.Det() < 0, "det<0")
	sim := c.M.IsSimilarity()
	r.ClassIf(!sim, "non-similarity")
	if hasArc && (!sim || m.Det() < 0) {
		r.NonTrivial()
	}
	var q *canvas.Path
	if err := vf.Try("Transform", func() { q = p.Copy().Transform(c.M.Canvas()) }); err != nil {
		return err
	}
	out, err := oracle.Decode(q.Data())
	if err != nil {
		return vf.Errorf("output not decodable: %v", err)
	}
	if len(out) != len(in) {
		return vf.Errorf("Transform changed the number of commands: %d -> %d", len(in), len(out))
	}
	// scale for tolerances: size of the transformed geometry
	size := 1e-9
	for _, s := range in {
		for _, t := range []float64{0, 0.5, 1} {
			pt := m.Apply(s.Eval(t))
			size = math.Max(size, math.Max(math.Abs(pt.X), math.Abs(pt.Y)))
		}
	}
	cond := m.MaxScale() * m.Inv().MaxScale()
	tol := 2e-6 * size * math.Max(1, cond/100)
	for i := range in {
		si, so := in[i], out[i]
		if si.Cmd != so.Cmd {
			return vf.Errorf("segment %d: command %v became %v", i, si.Cmd, so.Cmd)
		}
		if d := m.Apply(si.End()).Dist(so.End()); d > tol {
			return vf.Errorf("segment %d: end point is %v, image of input end point is %v", i, so.End(), m.Apply(si.End()))
		}
		if si.Cmd == oracle.MoveTo {
			continue
		}
		if d := m.Apply(si.P0).Dist(so.P0); d > tol {
			return vf.Errorf("segment %d: start point is %v, image of input start is %v", i, so.P0, m.Apply(si.P0))
		}
		if !si.Curved() {
			continue
		}
		if si.Cmd == oracle.ArcTo {
			// direction: the images of the start and end tangents must point along the output arc
			const e = 1e-4
			for _, tt := range []float64{0, 1 - e} {
				vin := m.Apply(si.Eval(tt + e)).Sub(m.Apply(si.Eval(tt)))
				vout := so.Eval(tt + e).Sub(so.Eval(tt))
				if vin.Dot(vout) <= 0 {
					return vf.Errorf("segment %d: output arc is traversed in the opposite direction near t=%v", i, tt)
				}
			}
		}
		const N = 16
		prevT := -1.0
		for k := 1; k < N; k++ {
			t := float64(k) / N
			img := m.Apply(si.Eval(t))
			d, tt := oracle.SegDist(so, img, 256)
			if d > tol {
				return vf.Errorf("segment %d (cmd %v): image of the input point at t=%v is %v, %g away from the output segment (tol %g)", i, si.Cmd, t, img, d, tol)
			}
			_ = tt
			_ = prevT
			if si.Cmd != oracle.ArcTo {
				// affine maps preserve the Bézier parametrisation exactly
				if dd := so.Eval(t).Dist(img); dd > tol {
					return vf.Errorf("segment %d (cmd %v): output point at t=%v is %v, image of the input point at t is %v", i, si.Cmd, t, so.Eval(t), img)
				}
			}
			// and the other way round: every output point is the image of an input point
			op := so.Eval(t)
			if d, _ := oracle.SegDist(si, m.Inv().Apply(op), 256); d*m.MaxScale() > tol*math.Max(1, cond) {
				return vf.Errorf("segment %d (cmd %v): output point at t=%v is not the image of a point of the input segment (preimage distance %g)", i, si.Cmd, t, d)
			}
		}
	}
	return nil
}

func TestTransform(t *testing.T) {
	vf.Run(t, vf.Prop[TCase]{Sub: "transform", Gen: genT, Check: checkT, Cases: vf.N(5000, 50000)})
}

// ---------- matrix algebra ----------

type MCase struct {
	A  gen.MatSpec `json:"a"`
	B  gen.MatSpec `json:"b"`
	P  [2]float64  `json:"p"`
	H  float64     `json:"h"`
	R  [4]float64  `json:"rect"`
	Op int         `json:"op"`   // builder method to check
	Ar [4]float64  `json:"args"` // its arguments
}

func genM(t *rapid.T) MCase {
	f := func(l string) float64 { return float64(rapid.IntRange(-80, 80).Draw(t, l)) / 8 }
	c := MCase{A: gen.Matrix(t, false), B: gen.Matrix(t, false), P: [2]float64{f("px"), f("py")}, H: float64(rapid.IntRange(0, 400).Draw(t, "h")) / 2}
	if rapid.IntRange(0, 9).Draw(t, "addtr") < 7 {
		c.A[2] += f("atx")
		c.A[5] += f("aty")
	}
	x0, y0 := f("rx0"), f("ry0")
	c.R = [4]float64{x0, y0, x0 + math.Abs(f("rw")), y0 + math.Abs(f("rh"))}
	c.Op = rapid.IntRange(0, 10).Draw(t, "op")
	c.Ar = [4]float64{f("a0"), f("a1"), f("a2"), f("a3")}
	if c.Op == 1 || c.Op == 2 {
		c.Ar[0] = float64(rapid.IntRange(-720, 720).Draw(t, "deg")) / 2
	}
	return c
}

func matClose(got canvas.Matrix, want oracle.Mat, tol float64) bool {
	g := gen.FromCanvas(got)
	for i := range g {
		if math.Abs(g[i]-want[i]) > tol {
			return false
		}
	}
	return true
}

func absMax(m oracle.Mat) float64 {
	v := 1.0
	for _, x := range m {
		v = math.Max(v, math.Abs(x))
	}
	return v
}

var reTr = regexp.MustCompile(`([a-z]+)\(([^)]*)\)`)

// parseSVGTransform is an independent reader of an SVG transform list (SVG 1.1 §7.6): the list
// "T1 T2 T3" denotes the product T1·T2·T3.
func parseSVGTransform(s string) (oracle.Mat, error) {
	m := oracle.Identity()
	rest := strings.TrimSpace(s)
	for _, mm := range reTr.FindAllStringSubmatch(s, -1) {
		var a []float64
		for _, f := range strings.FieldsFunc(mm[2], func(r rune) bool { return r == ',' || r == ' ' }) {
			v, err := strconv.ParseFloat(f, 64)
			if err != nil {
				return m, err
			}
			a = append(a, v)
		}
		var e oracle.Mat
		switch {
		case mm[1] == "translate" && len(a) == 2:
			e = oracle.Translate(a[0], a[1])
		case mm[1] == "translate" && len(a) == 1:
			e = oracle.Translate(a[0], 0)
		case mm[1] == "rotate" && len(a) == 1:
			e = oracle.Rotate(a[0])
		case mm[1] == "scale" && len(a) == 2:
			e = oracle.Scale(a[0], a[1])
		case mm[1] == "scale" && len(a) == 1:
			e = oracle.Scale(a[0], a[0])
		case mm[1] == "matrix" && len(a) == 6:
			e = oracle.Mat{a[0], a[2], a[4], a[1], a[3], a[5]}
		default:
			return m, vf.Errorf("unknown transform %q", mm[0])
		}
		m = m.Mul(e)
		rest = strings.Replace(rest, mm[0], "", 1)
	}
	if strings.TrimSpace(rest) != "" {
		return m, vf.Errorf("unparsed transform text %q in %q", rest, s)
	}
	return m, nil
}

func checkM(c MCase, r *vf.R) error {
	A, B := c.A.Canvas(), c.B.Canvas()
	oa, ob := oMat(c.A), oMat(c.B)
	p := oracle.Pt{X: c.P[0], Y: c.P[1]}
	cp := canvas.Point{X: p.X, Y: p.Y}
	scale := absMax(oa) * absMax(ob) * (1 + math.Abs(p.X) + math.Abs(p.Y))
	tol := 1e-10 * scale
	r.ClassIf(oa.Det() < 0, "detA<0")
	if math.Abs(oa[1]-oa[3]) > 1e-9 && (oa[2] != 0 || oa[5] != 0) && math.Abs(ob[1]-ob[3]) > 1e-9 {
		r.NonTrivial() // non-symmetric linear parts with translation: operand order and transposition matter
	}
	// Dot applies
	if g := A.Dot(cp); math.Abs(g.X-oa.Apply(p).X) > tol || math.Abs(g.Y-oa.Apply(p).Y) > tol {
		return vf.Errorf("Dot: %v applied to %v gave %v, want %v", A, cp, g, oa.Apply(p))
	}
	// Mul composes right-to-left
	if !matClose(A.Mul(B), oa.Mul(ob), tol) {
		return vf.Errorf("Mul: %v.Mul(%v) = %v, want %v", A, B, A.Mul(B), oa.Mul(ob))
	}
	g := A.Mul(B).Dot(cp)
	w := oa.Apply(ob.Apply(p))
	if math.Abs(g.X-w.X) > tol || math.Abs(g.Y-w.Y) > tol {
		return vf.Errorf("A.Mul(B).Dot(p) = %v but A.Dot(B.Dot(p)) = %v", g, w)
	}
	// Det, T
	if math.Abs(A.Det()-oa.Det()) > tol*absMax(oa) {
		return vf.Errorf("Det %v want %v", A.Det(), oa.Det())
	}
	tr := oa
	tr[1], tr[3] = oa[3], oa[1]
	if !matClose(A.T(), tr, 0) {
		return vf.Errorf("T() of %v = %v", A, A.T())
	}
	// Inv
	if math.Abs(oa.Det()) > 1e-6 {
		var inv canvas.Matrix
		if err := vf.Try("Inv", func() { inv = A.Inv() }); err != nil {
			return err
		}
		itol := 1e-9 * scale * absMax(oa.Inv())
		if !matClose(inv, oa.Inv(), itol) {
			return vf.Errorf("Inv of %v = %v, want %v", A, inv, oa.Inv())
		}
		if !matClose(A.Mul(inv), oracle.Identity(), itol*absMax(oa)) {
			return vf.Errorf("A.Mul(A.Inv()) = %v for A = %v", A.Mul(inv), A)
		}
		back := inv.Dot(A.Dot(cp))
		if math.Abs(back.X-p.X) > itol*absMax(oa) || math.Abs(back.Y-p.Y) > itol*absMax(oa) {
			return vf.Errorf("Inv().Dot(Dot(p)) = %v, want %v", back, p)
		}
	}
	// Decompose recomposes as documented: Translate(tx,ty).Rotate(phi).Scale(sx,sy).Rotate(theta)
	tx, ty, phi, sx, sy, theta := A.Decompose()
	rec := oracle.Translate(tx, ty).Mul(oracle.Rotate(phi)).Mul(oracle.Scale(sx, sy)).Mul(oracle.Rotate(theta))
	if !matClose(A, rec, 1e-9*absMax(oa)) {
		return vf.Errorf("Decompose of %v = (%v,%v,%v,%v,%v,%v) recomposes to %v", A, tx, ty, phi, sx, sy, theta, rec)
	}
	// ToSVG(h) describes T(0,h)·flipY·A·flipY in SVG user space
	want := oracle.Translate(0, c.H).Mul(oracle.Scale(1, -1)).Mul(oa).Mul(oracle.Scale(1, -1))
	s := A.ToSVG(c.H)
	if s == "" {
		// documented shortcut: nothing to write. Must then be the identity up to the y offset handled elsewhere
		if !matClose(A, oracle.Identity(), 1e-9) {
			return vf.Errorf("ToSVG(%v) of non-identity %v is empty", c.H, A)
		}
	} else {
		if r.Excluded("F07a", oa[2] == 0 && oa[5] == 0 && c.H != 0) {
			// known finding: ToSVG(h) drops the translate(0,h) term when the matrix has no translation (pinned by TestMatrix)
			goto afterSVG
		}
		gm, err := parseSVGTransform(s)
		if err != nil {
			return vf.Errorf("ToSVG(%v) of %v = %q: %v", c.H, A, s, err)
		}
		// printed with canvas.Precision (8) significant digits: compare the action on the unit square scaled to the data
		ptol := 2e-6 * (absMax(want) + c.H) * 4
		for _, q := range []oracle.Pt{{X: 0, Y: 0}, {X: 10, Y: 0}, {X: 0, Y: 10}, {X: -7, Y: 3}} {
			a, b := gm.Apply(q), want.Apply(q)
			if a.Dist(b) > ptol*10 {
				return vf.Errorf("ToSVG(%v) of %v = %q maps %v to %v, want %v", c.H, A, s, q, a, b)
			}
		}
	}
afterSVG:
	// Rect.Transform = bounds of the transformed corners
	rc := canvas.Rect{X0: c.R[0], Y0: c.R[1], X1: c.R[2], Y1: c.R[3]}
	gr := rc.Transform(A)
	bx := oracle.EmptyBox()
	for _, q := range []oracle.Pt{{X: c.R[0], Y: c.R[1]}, {X: c.R[2], Y: c.R[1]}, {X: c.R[2], Y: c.R[3]}, {X: c.R[0], Y: c.R[3]}} {
		bx = bx.Extend(oa.Apply(q))
	}
	rtol := 1e-10 * absMax(oa) * (1 + math.Abs(c.R[0]) + math.Abs(c.R[1]) + math.Abs(c.R[2]) + math.Abs(c.R[3]))
	if math.Abs(gr.X0-bx.X0) > rtol || math.Abs(gr.Y0-bx.Y0) > rtol || math.Abs(gr.X1-bx.X1) > rtol || math.Abs(gr.Y1-bx.Y1) > rtol {
		return vf.Errorf("Rect%v.Transform(%v) = %v, want %+v", c.R, A, gr, bx)
	}
	// view-composition helpers post-multiply
	a := c.Ar
	var gotM canvas.Matrix
	var wantM oracle.Mat
	about := func(e oracle.Mat, x, y float64) oracle.Mat {
		return oracle.Translate(x, y).Mul(e).Mul(oracle.Translate(-x, -y))
	}
	name := ""
	switch c.Op {
	case 0:
		name, gotM, wantM = "Translate", A.Translate(a[0], a[1]), oa.Mul(oracle.Translate(a[0], a[1]))
	case 1:
		name, gotM, wantM = "Rotate", A.Rotate(a[0]), oa.Mul(oracle.Rotate(a[0]))
	case 2:
		name, gotM, wantM = "RotateAbout", A.RotateAbout(a[0], a[1], a[2]), oa.Mul(about(oracle.Rotate(a[0]), a[1], a[2]))
	case 3:
		name, gotM, wantM = "Scale", A.Scale(a[0], a[1]), oa.Mul(oracle.Scale(a[0], a[1]))
	case 4:
		name, gotM, wantM = "ScaleAbout", A.ScaleAbout(a[0], a[1], a[2], a[3]), oa.Mul(about(oracle.Scale(a[0], a[1]), a[2], a[3]))
	case 5:
		name, gotM, wantM = "Shear", A.Shear(a[0], a[1]), oa.Mul(oracle.Shear(a[0], a[1]))
	case 6:
		name, gotM, wantM = "ShearAbout", A.ShearAbout(a[0], a[1], a[2], a[3]), oa.Mul(about(oracle.Shear(a[0], a[1]), a[2], a[3]))
	case 7:
		name, gotM, wantM = "ReflectX", A.ReflectX(), oa.Mul(oracle.Scale(-1, 1))
	case 8:
		name, gotM, wantM = "ReflectXAbout", A.ReflectXAbout(a[0]), oa.Mul(about(oracle.Scale(-1, 1), a[0], 0))
	case 9:
		name, gotM, wantM = "ReflectY", A.ReflectY(), oa.Mul(oracle.Scale(1, -1))
	default:
		name, gotM, wantM = "ReflectYAbout", A.ReflectYAbout(a[0]), oa.Mul(about(oracle.Scale(1, -1), 0, a[0]))
	}
	r.Class("helper:" + name)
	if !matClose(gotM, wantM, 1e-9*absMax(wantM)) {
		return vf.Errorf("%v.%s(%v) = %v, want %v (post-multiplication)", A, name, a, gotM, wantM)
	}
	return nil
}

func TestMatrix(t *testing.T) {
	vf.Run(t, vf.Prop[MCase]{Sub: "matrix", Gen: genM, Check: checkM, Cases: vf.N(20000, 200000)})
}
