// Package psread is a small PostScript interpreter written against the PostScript Language Reference (3rd ed.): enough of the language (operand and dictionary stacks, procedures, the path, painting, graphics state and image operators) to execute the programs the PostScript renderer emits, including its prolog. It does not import canvas.
package psread

import (
	"bytes"
	"compress/zlib"
	"encoding/ascii85"
	"fmt"
	"io"
	"math"
	"strconv"
	"strings"

	"verif/harness/dl"
	"verif/harness/geo"
	"verif/harness/oracle"
)

type name struct {
	s       string
	literal bool
}
type proc []any
type mark struct{}
type dictMark struct{}
type matrixObj struct{ m *[6]float64 } // PostScript order [a b c d tx ty]
type fileObj struct{ filters []string }

type gstate struct {
	ctm       oracle.Mat
	b         *geo.Builder
	rgb       [3]float64
	width     float64
	cap, join int
	miter     float64
	dash      []float64
	offset    float64
}

func (g gstate) clone() gstate {
	nb := &geo.Builder{Segs: append([]oracle.Seg(nil), g.b.Segs...), Cur: g.b.Cur, Start: g.b.Start, HasCur: g.b.HasCur}
	g.b = nb
	g.dash = append([]float64(nil), g.dash...)
	return g
}

type Interp struct {
	src   []byte
	pos   int
	stack []any
	dict  map[string]any
	gs    gstate
	gsave []gstate
	doc   *dl.Doc
	steps int
}

// Header holds the DSC comments of interest.
type Header struct {
	EPS         bool
	BoundingBox [4]float64
	HasBBox     bool
	HiRes       [4]float64
	HasHiRes    bool
	HasEOF      bool
}

// Run executes a PostScript program. The display list is in PostScript default user space units converted to millimetres (1 unit = 1/72 inch), y upwards.
func Run(src []byte) (*dl.Doc, Header, error) {
	var h Header
	if !bytes.HasPrefix(src, []byte("%!PS-Adobe-")) {
		return nil, h, fmt.Errorf("no %%!PS-Adobe header")
	}
	first, _, _ := bytes.Cut(src, []byte("\n"))
	h.EPS = bytes.Contains(first, []byte("EPSF-"))
	for _, line := range bytes.Split(src, []byte("\n")) {
		if bytes.HasPrefix(line, []byte("%%BoundingBox:")) && !h.HasBBox {
			f := strings.Fields(string(line[len("%%BoundingBox:"):]))
			if len(f) == 4 {
				ok := true
				for i := range f {
					v, err := strconv.ParseFloat(f[i], 64)
					if err != nil {
						ok = false
					}
					h.BoundingBox[i] = v
				}
				h.HasBBox = ok
			}
		}
		if bytes.HasPrefix(line, []byte("%%HiResBoundingBox:")) {
			// the exact box; %%BoundingBox is its integer hull
			f := strings.Fields(string(line[len("%%HiResBoundingBox:"):]))
			if len(f) == 4 {
				var hb [4]float64
				ok := true
				for i := range f {
					v, err := strconv.ParseFloat(f[i], 64)
					if err != nil {
						ok = false
					}
					hb[i] = v
				}
				if ok {
					h.HiRes, h.HasHiRes = hb, true
				}
			}
		}
		if bytes.HasPrefix(line, []byte("%%EOF")) {
			h.HasEOF = true
		}
		if len(line) > 0 && line[0] != '%' {
			break
		}
	}
	const mmPerPt = 25.4 / 72
	in := &Interp{src: src, dict: map[string]any{}, doc: &dl.Doc{}}
	in.gs = gstate{ctm: oracle.Scale(mmPerPt, mmPerPt), b: &geo.Builder{}, width: 1, miter: 10}
	if h.HasBBox {
		bb := h.BoundingBox
		for i, v := range bb {
			if v != math.Trunc(v) {
				return nil, h, fmt.Errorf("%%%%BoundingBox value %v is not an integer", bb[i])
			}
		}
		if h.HasHiRes {
			hb := h.HiRes
			if math.Floor(hb[0]) < bb[0] || math.Floor(hb[1]) < bb[1] || math.Ceil(hb[2]) > bb[2] || math.Ceil(hb[3]) > bb[3] {
				return nil, h, fmt.Errorf("%%%%BoundingBox %v does not enclose %%%%HiResBoundingBox %v", bb, hb)
			}
			bb = hb
		}
		if bb[0] != 0 || bb[1] != 0 {
			return nil, h, fmt.Errorf("bounding box origin %v not handled", bb)
		}
		in.doc.W = (bb[2] - bb[0]) * mmPerPt
		in.doc.H = (bb[3] - bb[1]) * mmPerPt
	}
	for {
		tok, err := in.token()
		if err != nil {
			return in.doc, h, err
		}
		if tok == nil {
			break
		}
		if err := in.exec(tok, true); err != nil {
			return in.doc, h, fmt.Errorf("offset %d: %v", in.pos, err)
		}
	}
	if len(in.gsave) != 0 {
		return in.doc, h, fmt.Errorf("%d gsave without grestore at the end of the program", len(in.gsave))
	}
	return in.doc, h, nil
}

func isWhite(c byte) bool {
	return c == 0 || c == '\t' || c == '\n' || c == '\f' || c == '\r' || c == ' '
}
func isDelim(c byte) bool {
	return strings.IndexByte("()<>[]{}/%", c) >= 0
}

// token returns the next token: float64, name, proc (for { ... }), mark tokens, or nil at the end.
func (in *Interp) token() (any, error) {
	for in.pos < len(in.src) {
		c := in.src[in.pos]
		if isWhite(c) {
			in.pos++
		} else if c == '%' {
			for in.pos < len(in.src) && in.src[in.pos] != '\n' && in.src[in.pos] != '\r' {
				in.pos++
			}
		} else {
			break
		}
	}
	if in.pos >= len(in.src) {
		return nil, nil
	}
	c := in.src[in.pos]
	switch c {
	case '{':
		in.pos++
		var p proc
		for {
			t, err := in.token()
			if err != nil {
				return nil, err
			}
			if t == nil {
				return nil, fmt.Errorf("unterminated procedure")
			}
			if n, ok := t.(name); ok && n.s == "}" && !n.literal {
				return p, nil
			}
			p = append(p, t)
		}
	case '}':
		in.pos++
		return name{s: "}"}, nil
	case '[', ']':
		in.pos++
		return name{s: string(c)}, nil
	case '<':
		if in.pos+1 < len(in.src) && in.src[in.pos+1] == '<' {
			in.pos += 2
			return name{s: "<<"}, nil
		}
		return nil, fmt.Errorf("offset %d: hex strings not handled", in.pos)
	case '>':
		if in.pos+1 < len(in.src) && in.src[in.pos+1] == '>' {
			in.pos += 2
			return name{s: ">>"}, nil
		}
		return nil, fmt.Errorf("offset %d: stray >", in.pos)
	case '(':
		return nil, fmt.Errorf("offset %d: strings not handled", in.pos)
	case '/':
		in.pos++
		st := in.pos
		for in.pos < len(in.src) && !isWhite(in.src[in.pos]) && !isDelim(in.src[in.pos]) {
			in.pos++
		}
		return name{s: string(in.src[st:in.pos]), literal: true}, nil
	}
	st := in.pos
	for in.pos < len(in.src) && !isWhite(in.src[in.pos]) && !isDelim(in.src[in.pos]) {
		in.pos++
	}
	w := string(in.src[st:in.pos])
	if f, ok := number(w); ok {
		return f, nil
	}
	return name{s: w}, nil
}

// number accepts PostScript integers and reals (including exponents), not NaN or Inf.
func number(w string) (float64, bool) {
	if w == "" {
		return 0, false
	}
	digits := 0
	for i, c := range []byte(w) {
		switch {
		case '0' <= c && c <= '9':
			digits++
		case c == '+' || c == '-':
			if i != 0 && w[i-1] != 'e' && w[i-1] != 'E' {
				return 0, false
			}
		case c == '.' || c == 'e' || c == 'E':
		default:
			return 0, false
		}
	}
	if digits == 0 {
		return 0, false
	}
	f, err := strconv.ParseFloat(w, 64)
	return f, err == nil
}

func (in *Interp) push(v any) { in.stack = append(in.stack, v) }
func (in *Interp) pop() (any, error) {
	if len(in.stack) == 0 {
		return nil, fmt.Errorf("stackunderflow")
	}
	v := in.stack[len(in.stack)-1]
	in.stack = in.stack[:len(in.stack)-1]
	return v, nil
}
func (in *Interp) num() (float64, error) {
	v, err := in.pop()
	if err != nil {
		return 0, err
	}
	f, ok := v.(float64)
	if !ok {
		return 0, fmt.Errorf("typecheck: expected a number, found %v", v)
	}
	return f, nil
}
func (in *Interp) nums(n int) ([]float64, error) {
	out := make([]float64, n)
	for i := n - 1; i >= 0; i-- {
		f, err := in.num()
		if err != nil {
			return nil, err
		}
		out[i] = f
	}
	return out, nil
}

func (in *Interp) exec(tok any, direct bool) error {
	in.steps++
	if in.steps > 5_000_000 {
		return fmt.Errorf("too many steps")
	}
	switch t := tok.(type) {
	case float64:
		in.push(t)
		return nil
	case proc:
		in.push(t) // a procedure encountered directly is pushed
		return nil
	case name:
		if t.literal {
			in.push(t)
			return nil
		}
		if v, ok := in.dict[t.s]; ok {
			if p, ok := v.(proc); ok {
				for _, e := range p {
					if err := in.exec(e, false); err != nil {
						return err
					}
				}
				return nil
			}
			in.push(v)
			return nil
		}
		return in.operator(t.s)
	}
	return fmt.Errorf("cannot execute %v", tok)
}

func psMat(a []float64) oracle.Mat { return oracle.Mat{a[0], a[2], a[4], a[1], a[3], a[5]} }

func (in *Interp) arc(ccw bool) error {
	a, err := in.nums(5)
	if err != nil {
		return err
	}
	cx, cy, r, a0, a1 := a[0], a[1], a[2], a[3], a[4]
	if ccw {
		for a1 < a0 {
			a1 += 360
		}
	} else {
		for a1 > a0 {
			a1 -= 360
		}
	}
	// the arc is a circle in user space; under the CTM it is an ellipse: emit short cubic pieces through the CTM
	n := int(math.Ceil(math.Abs(a1-a0)/15)) + 1
	at := func(deg float64) oracle.Pt {
		s, c := math.Sincos(deg * math.Pi / 180)
		return in.gs.ctm.Apply(oracle.Pt{X: cx + r*c, Y: cy + r*s})
	}
	dir := func(deg float64) oracle.Pt { // derivative with respect to the angle in radians, in device space
		s, c := math.Sincos(deg * math.Pi / 180)
		m := in.gs.ctm
		return oracle.Pt{X: m[0]*(-r*s) + m[1]*(r*c), Y: m[3]*(-r*s) + m[4]*(r*c)}
	}
	p0 := at(a0)
	b := in.gs.b
	if n := len(b.Segs); n > 0 && b.Segs[n-1].Cmd == oracle.Close {
		b.MoveTo(b.Start.X, b.Start.Y)
	}
	if b.HasCur {
		if b.Cur.Dist(p0) > 0 {
			b.LineTo(p0.X, p0.Y)
		}
	} else {
		b.MoveTo(p0.X, p0.Y)
	}
	for k := 0; k < n; k++ {
		t0 := a0 + (a1-a0)*float64(k)/float64(n)
		t1 := a0 + (a1-a0)*float64(k+1)/float64(n)
		h := (t1 - t0) * math.Pi / 180
		kappa := 4.0 / 3.0 * math.Tan(h/4)
		q0, q1 := at(t0), at(t1)
		d0, d1 := dir(t0), dir(t1)
		b.CubeTo(q0.X+kappa*d0.X, q0.Y+kappa*d0.Y, q1.X-kappa*d1.X, q1.Y-kappa*d1.Y, q1.X, q1.Y)
	}
	return nil
}

func (in *Interp) paint(fill, evenodd, stroke bool) error {
	g := &in.gs
	it := dl.Item{Segs: g.b.Segs, EvenOdd: evenodd}
	p := dl.Paint{Color: dl.RGBA{R: g.rgb[0], G: g.rgb[1], B: g.rgb[2], A: 1}}
	if fill {
		it.Fill = &p
	}
	if stroke {
		m := g.ctm
		sx, sy := math.Hypot(m[0], m[3]), math.Hypot(m[1], m[4])
		if math.Abs(sx-sy) > 1e-6*sx || math.Abs(m[0]*m[1]+m[3]*m[4]) > 1e-6*sx*sy {
			return fmt.Errorf("stroke under a non-similarity CTM is not representable")
		}
		st := &dl.Stroke{Paint: p, Width: g.width * sx, Cap: g.cap, MiterLimit: g.miter, DashOffset: g.offset * sx}
		switch g.join {
		case 0:
			st.Join = dl.JoinMiter
		case 1:
			st.Join = dl.JoinRound
		case 2:
			st.Join = dl.JoinBevel
		}
		for _, d := range g.dash {
			st.Dashes = append(st.Dashes, d*sx)
		}
		if len(st.Dashes)%2 == 1 {
			st.Dashes = append(st.Dashes, st.Dashes...)
		}
		it.Stroke = st
	}
	if len(it.Segs) > 0 {
		in.doc.Items = append(in.doc.Items, it)
	}
	g.b = &geo.Builder{} // painting operators clear the current path
	return nil
}

func (in *Interp) operator(op string) error {
	g := &in.gs
	switch op {
	case "def":
		v, err := in.pop()
		if err != nil {
			return err
		}
		k, err := in.pop()
		if err != nil {
			return err
		}
		kn, ok := k.(name)
		if !ok || !kn.literal {
			return fmt.Errorf("def: key %v is not a literal name", k)
		}
		in.dict[kn.s] = v
	case "exch":
		if len(in.stack) < 2 {
			return fmt.Errorf("stackunderflow")
		}
		n := len(in.stack)
		in.stack[n-1], in.stack[n-2] = in.stack[n-2], in.stack[n-1]
	case "dup":
		if len(in.stack) < 1 {
			return fmt.Errorf("stackunderflow")
		}
		in.push(in.stack[len(in.stack)-1])
	case "pop":
		_, err := in.pop()
		return err
	case "[", "<<":
		in.push(mark{})
	case "]":
		var arr []any
		for {
			v, err := in.pop()
			if err != nil {
				return fmt.Errorf("unmatchedmark")
			}
			if _, ok := v.(mark); ok {
				break
			}
			arr = append([]any{v}, arr...)
		}
		in.push(arr)
	case ">>":
		d := map[string]any{}
		for {
			v, err := in.pop()
			if err != nil {
				return fmt.Errorf("unmatchedmark")
			}
			if _, ok := v.(mark); ok {
				break
			}
			k, err := in.pop()
			if err != nil {
				return err
			}
			kn, ok := k.(name)
			if !ok {
				return fmt.Errorf("dictionary key %v is not a name", k)
			}
			d[kn.s] = v
		}
		in.push(d)
	case "matrix":
		in.push(matrixObj{&[6]float64{1, 0, 0, 1, 0, 0}})
	case "currentmatrix":
		v, err := in.pop()
		if err != nil {
			return err
		}
		mo, ok := v.(matrixObj)
		if !ok {
			return fmt.Errorf("currentmatrix: typecheck")
		}
		c := g.ctm
		*mo.m = [6]float64{c[0], c[3], c[1], c[4], c[2], c[5]}
		in.push(mo)
	case "setmatrix":
		v, err := in.pop()
		if err != nil {
			return err
		}
		mo, ok := v.(matrixObj)
		if !ok {
			return fmt.Errorf("setmatrix: typecheck")
		}
		g.ctm = psMat(mo.m[:])
	case "translate":
		a, err := in.nums(2)
		if err != nil {
			return err
		}
		g.ctm = g.ctm.Mul(oracle.Translate(a[0], a[1]))
	case "rotate":
		a, err := in.num()
		if err != nil {
			return err
		}
		g.ctm = g.ctm.Mul(oracle.Rotate(a))
	case "scale":
		a, err := in.nums(2)
		if err != nil {
			return err
		}
		g.ctm = g.ctm.Mul(oracle.Scale(a[0], a[1]))
	case "concat":
		v, err := in.pop()
		if err != nil {
			return err
		}
		arr, ok := v.([]any)
		if !ok || len(arr) != 6 {
			return fmt.Errorf("concat: typecheck %v", v)
		}
		var a [6]float64
		for i := range a {
			f, ok := arr[i].(float64)
			if !ok {
				return fmt.Errorf("concat: typecheck %v", v)
			}
			a[i] = f
		}
		g.ctm = g.ctm.Mul(psMat(a[:]))
	case "newpath":
		g.b = &geo.Builder{}
	case "moveto":
		a, err := in.nums(2)
		if err != nil {
			return err
		}
		p := g.ctm.Apply(oracle.Pt{X: a[0], Y: a[1]})
		g.b.MoveTo(p.X, p.Y)
	case "lineto":
		a, err := in.nums(2)
		if err != nil {
			return err
		}
		if !g.b.HasCur {
			return fmt.Errorf("nocurrentpoint")
		}
		p := g.ctm.Apply(oracle.Pt{X: a[0], Y: a[1]})
		g.b.ReopenIfClosed()
		g.b.LineTo(p.X, p.Y)
	case "curveto":
		a, err := in.nums(6)
		if err != nil {
			return err
		}
		if !g.b.HasCur {
			return fmt.Errorf("nocurrentpoint")
		}
		p1 := g.ctm.Apply(oracle.Pt{X: a[0], Y: a[1]})
		p2 := g.ctm.Apply(oracle.Pt{X: a[2], Y: a[3]})
		p3 := g.ctm.Apply(oracle.Pt{X: a[4], Y: a[5]})
		g.b.ReopenIfClosed()
		g.b.CubeTo(p1.X, p1.Y, p2.X, p2.Y, p3.X, p3.Y)
	case "closepath":
		g.b.Close()
	case "arc":
		return in.arc(true)
	case "arcn":
		return in.arc(false)
	case "fill":
		return in.paint(true, false, false)
	case "eofill":
		return in.paint(true, true, false)
	case "stroke":
		return in.paint(false, false, true)
	case "gsave":
		in.gsave = append(in.gsave, g.clone())
	case "grestore":
		if len(in.gsave) == 0 {
			return nil // grestore on an empty stack is a no-op
		}
		in.gs = in.gsave[len(in.gsave)-1]
		in.gsave = in.gsave[:len(in.gsave)-1]
	case "setgray":
		a, err := in.num()
		if err != nil {
			return err
		}
		g.rgb = [3]float64{a, a, a}
	case "setrgbcolor":
		a, err := in.nums(3)
		if err != nil {
			return err
		}
		g.rgb = [3]float64{a[0], a[1], a[2]}
	case "setlinewidth":
		a, err := in.num()
		if err != nil {
			return err
		}
		g.width = a
	case "setlinecap":
		a, err := in.num()
		if err != nil {
			return err
		}
		if a != 0 && a != 1 && a != 2 {
			return fmt.Errorf("setlinecap: rangecheck %v", a)
		}
		g.cap = int(a)
	case "setlinejoin":
		a, err := in.num()
		if err != nil {
			return err
		}
		if a != 0 && a != 1 && a != 2 {
			return fmt.Errorf("setlinejoin: rangecheck %v", a)
		}
		g.join = int(a)
	case "setmiterlimit":
		a, err := in.num()
		if err != nil {
			return err
		}
		if a < 1 {
			return fmt.Errorf("setmiterlimit: rangecheck %v", a)
		}
		g.miter = a
	case "setdash":
		off, err := in.num()
		if err != nil {
			return err
		}
		v, err := in.pop()
		if err != nil {
			return err
		}
		arr, ok := v.([]any)
		if !ok {
			return fmt.Errorf("setdash: typecheck %v", v)
		}
		g.dash = nil
		sum := 0.0
		for _, e := range arr {
			f, ok := e.(float64)
			if !ok {
				return fmt.Errorf("setdash: typecheck %v", e)
			}
			if f < 0 {
				return fmt.Errorf("setdash: rangecheck, negative element %v", f)
			}
			g.dash = append(g.dash, f)
			sum += f
		}
		if len(arr) > 0 && sum == 0 {
			return fmt.Errorf("setdash: rangecheck, all elements zero")
		}
		g.offset = off
	case "setcolorspace":
		v, err := in.pop()
		if err != nil {
			return err
		}
		if n, ok := v.(name); !ok || n.s != "DeviceRGB" {
			return fmt.Errorf("setcolorspace %v not handled", v)
		}
		g.rgb = [3]float64{0, 0, 0}
	case "currentfile":
		in.push(fileObj{})
	case "filter":
		fn, err := in.pop()
		if err != nil {
			return err
		}
		src, err := in.pop()
		if err != nil {
			return err
		}
		n, ok1 := fn.(name)
		fo, ok2 := src.(fileObj)
		if !ok1 || !ok2 {
			return fmt.Errorf("filter: typecheck")
		}
		in.push(fileObj{filters: append(append([]string(nil), fo.filters...), n.s)})
	case "true":
		in.push(true)
	case "false":
		in.push(false)
	case "image":
		return in.image()
	case "showpage":
	default:
		return fmt.Errorf("undefined: %s", op)
	}
	return nil
}

func (in *Interp) image() error {
	v, err := in.pop()
	if err != nil {
		return err
	}
	d, ok := v.(map[string]any)
	if !ok {
		return fmt.Errorf("image: only the dictionary form is handled")
	}
	geti := func(k string) (int, bool) {
		f, ok := d[k].(float64)
		return int(f), ok && f == math.Trunc(f)
	}
	w, ok1 := geti("Width")
	h, ok2 := geti("Height")
	bpc, ok3 := geti("BitsPerComponent")
	it, ok4 := geti("ImageType")
	if !ok1 || !ok2 || !ok3 || !ok4 || it != 1 || bpc != 8 || w <= 0 || h <= 0 {
		return fmt.Errorf("image dictionary %v", d)
	}
	im, ok := d["ImageMatrix"].([]any)
	if !ok || len(im) != 6 {
		return fmt.Errorf("image: /ImageMatrix %v", d["ImageMatrix"])
	}
	var a [6]float64
	for i := range a {
		a[i], _ = im[i].(float64)
	}
	dec, ok := d["Decode"].([]any)
	if !ok || len(dec) != 6 {
		return fmt.Errorf("image: /Decode %v", d["Decode"])
	}
	for i, e := range dec {
		if f, _ := e.(float64); f != float64(i%2) {
			return fmt.Errorf("image: /Decode %v not handled", dec)
		}
	}
	fo, ok := d["DataSource"].(fileObj)
	if !ok {
		return fmt.Errorf("image: /DataSource %v", d["DataSource"])
	}
	// the data follows the image operator after one white-space character
	if in.pos < len(in.src) && isWhite(in.src[in.pos]) {
		if in.src[in.pos] == '\r' && in.pos+1 < len(in.src) && in.src[in.pos+1] == '\n' {
			in.pos++
		}
		in.pos++
	}
	var r io.Reader
	data := in.src[in.pos:]
	consumed := -1
	for _, f := range fo.filters {
		switch f {
		case "ASCII85Decode":
			if consumed >= 0 {
				return fmt.Errorf("image: ASCII85Decode must be the first filter")
			}
			i := bytes.Index(data, []byte("~>"))
			if i < 0 {
				return fmt.Errorf("image: ASCII85 data without ~>")
			}
			consumed = i + 2
			r = ascii85.NewDecoder(bytes.NewReader(data[:i]))
		case "FlateDecode":
			if r == nil {
				return fmt.Errorf("image: binary data in the program not handled")
			}
			zr, err := zlib.NewReader(r)
			if err != nil {
				return fmt.Errorf("image: FlateDecode: %v", err)
			}
			r = zr
		default:
			return fmt.Errorf("image: filter %s not handled", f)
		}
	}
	if r == nil {
		return fmt.Errorf("image: no filter")
	}
	raw, err := io.ReadAll(r)
	if err != nil {
		return fmt.Errorf("image data: %v", err)
	}
	in.pos += consumed
	if len(raw) != w*h*3 {
		return fmt.Errorf("image: %d bytes of sample data for %dx%d RGB", len(raw), w, h)
	}
	out := &dl.Image{W: w, H: h, Pix: make([]dl.RGBA, w*h)}
	for i := range out.Pix {
		out.Pix[i] = dl.RGBA{R: float64(raw[3*i]) / 255, G: float64(raw[3*i+1]) / 255, B: float64(raw[3*i+2]) / 255, A: 1}
	}
	// ImageMatrix maps user space to image space (u to the right, v = row index from the first row of data)
	imgFromUser := psMat(a[:])
	out.M = in.gs.ctm.Mul(imgFromUser.Inv())
	in.doc.Items = append(in.doc.Items, dl.Item{Image: out})
	return nil
}
