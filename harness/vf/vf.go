// Package vf is the small framework shared by all property packages: it drives rapid with a
// deterministic seed, counts what the generators produced, captures the shrunk failing case as a
// JSON replay file, replays corpus / known-finding cases without rapid and writes one shard
// result file that the ./check driver merges into /verif/evidence/<ID>.json.
package vf

import (
	"encoding/json"
	"flag"
	"fmt"
	"hash/fnv"
	"os"
	"path/filepath"
	"runtime/debug"
	"sort"
	"strconv"
	"strings"
	"sync"
	"testing"
	"time"

	"pgregory.net/rapid"
)

// R records facts about one generated case.
type R struct {
	strict     bool // known-finding replay: class exclusions are disabled
	classes    []string
	nontrivial bool
	excluded   []string
	notes      map[string]any
}

// Class labels the case for the class histogram.
func (r *R) Class(name string) { r.classes = append(r.classes, name) }

// ClassIf labels the case when cond holds and returns cond.
func (r *R) ClassIf(cond bool, name string) bool {
	if cond {
		r.classes = append(r.classes, name)
	}
	return cond
}

// NonTrivial marks the case as non-trivial by the property's stated rule.
func (r *R) NonTrivial() { r.nontrivial = true }

// Excluded reports whether the strict oracle must be skipped because the *input* falls into the
// recorded finding class id (pred computed from the input only). In strict mode (replay of a known
// finding) nothing is excluded.
func (r *R) Excluded(id string, pred bool) bool {
	if !pred || r.strict || noExclude[id] {
		return false
	}
	r.excluded = append(r.excluded, id)
	return true
}

// Strict reports whether exclusions are disabled.
func (r *R) Strict() bool { return r.strict }

// Finding is one entry of /verif/known_findings.json.
type Finding struct {
	ID       string          `json:"id"`
	Property string          `json:"property"`
	Sub      string          `json:"sub"`
	Status   string          `json:"status"` // "open" or "fixed"
	Commit   string          `json:"commit,omitempty"`
	What     string          `json:"what"`
	Case     json.RawMessage `json:"case"`
}

type replayFile struct {
	Property string          `json:"property"`
	Sub      string          `json:"sub"`
	Error    string          `json:"error,omitempty"`
	Case     json.RawMessage `json:"case"`
}

type subStats struct {
	Requested   int            `json:"requested"`
	Evaluations int            `json:"evaluations"`
	NonTrivial  int            `json:"nontrivial"`
	Classes     map[string]int `json:"classes"`
	Excluded    map[string]int `json:"excluded_by_finding"`
	Samples     []any          `json:"samples"`
	WallS       float64        `json:"wall_s"`
	// rate guards are decided by the driver on the counts of all shards together
	MaxRate       map[string]float64 `json:"max_rate,omitempty"`
	BaseRate      map[string]float64 `json:"base_rate,omitempty"`
	FirstExcluded map[string]any     `json:"first_excluded,omitempty"`
}

type violation struct {
	Sub    string `json:"sub"`
	Error  string `json:"error"`
	Replay string `json:"replay"`
	Origin string `json:"origin"` // generated | corpus | replay | fixed-finding
}

type knownResult struct {
	ID         string `json:"id"`
	Sub        string `json:"sub"`
	What       string `json:"what"`
	Reproduced bool   `json:"reproduced"`
	Detail     string `json:"detail"`
}

type shardResult struct {
	Property   string               `json:"property"`
	Tier       string               `json:"tier"`
	Seed       int64                `json:"seed"`
	Shard      int                  `json:"shard"`
	Subs       map[string]*subStats `json:"subs"`
	Violations []violation          `json:"violations"`
	Known      []knownResult        `json:"known"`
	Corpus     int                  `json:"corpus_replayed"`
	Notes      map[string]any       `json:"notes,omitempty"`
}

var (
	mu       sync.Mutex
	propID   string
	tier     = "quick"
	seed     int64 = 1
	shard    int
	nshards  = 1
	outDir   string
	verifDir = "/verif"
	res      shardResult
	hashes   = map[uint64]struct{}{}
	noExclude = map[string]bool{}
)

// Tier returns "quick" or "thorough".
func Tier() string { return tier }

// Thorough reports whether the thorough tier is running.
func Thorough() bool { return tier == "thorough" }

// N picks a per-tier case count (per shard).
func N(quick, thorough int) int {
	if tier == "thorough" {
		return thorough
	}
	return quick
}

// Note stores a free-form fact in the shard result (shown in evidence).
func Note(k string, v any) {
	mu.Lock()
	defer mu.Unlock()
	if res.Notes == nil {
		res.Notes = map[string]any{}
	}
	res.Notes[k] = v
}

// Main is called from TestMain of every property package.
func Main(m *testing.M, id string) {
	propID = id
	if v := os.Getenv("VERIF_TIER"); v == "thorough" {
		tier = v
	}
	if v := os.Getenv("VERIF_SEED"); v != "" {
		if n, err := strconv.ParseInt(v, 10, 64); err == nil {
			seed = n
		}
	}
	if v := os.Getenv("VERIF_SHARD"); v != "" {
		shard, _ = strconv.Atoi(v)
	}
	if v := os.Getenv("VERIF_NSHARDS"); v != "" {
		nshards, _ = strconv.Atoi(v)
	}
	if v := os.Getenv("VERIF_DIR"); v != "" {
		verifDir = v
	}
	// development aid: VERIF_NOEXCLUDE=F03ab,F09b disables the listed finding classes so that rapid finds and
	// shrinks a representative input for known_findings.json (never set by the registered commands)
	for _, id := range strings.Split(os.Getenv("VERIF_NOEXCLUDE"), ",") {
		if id != "" {
			noExclude[id] = true
		}
	}
	outDir = os.Getenv("VERIF_OUT")
	res = shardResult{Property: id, Tier: tier, Seed: seed, Shard: shard, Subs: map[string]*subStats{}}
	flag.Parse()
	_ = flag.Set("rapid.nofailfile", "true")
	code := m.Run()
	writeShard()
	os.Exit(code)
}

func writeShard() {
	if outDir == "" {
		return
	}
	mu.Lock()
	defer mu.Unlock()
	b, _ := json.MarshalIndent(res, "", " ")
	_ = os.WriteFile(filepath.Join(outDir, fmt.Sprintf("shard-%d.json", shard)), b, 0o644)
	hs := make([]uint64, 0, len(hashes))
	for h := range hashes {
		hs = append(hs, h)
	}
	sort.Slice(hs, func(i, j int) bool { return hs[i] < hs[j] })
	var sb strings.Builder
	for _, h := range hs {
		fmt.Fprintf(&sb, "%016x\n", h)
	}
	_ = os.WriteFile(filepath.Join(outDir, fmt.Sprintf("shard-%d.hashes", shard)), []byte(sb.String()), 0o644)
}

// Flush writes the shard file early (used before a deliberate os.Exit, e.g. by the watchdog).
func Flush() { writeShard() }

func rapidSeed(sub string) uint64 {
	h := fnv.New64a()
	fmt.Fprintf(h, "%s/%s/%d/%d", propID, sub, seed, shard)
	s := h.Sum64() >> 2
	if s == 0 {
		s = 1
	}
	return s
}

// Prop is one executable sub-property: a generator of JSON-serialisable cases and a pure check.
type Prop[C any] struct {
	Sub   string
	Gen   func(t *rapid.T) C
	Check func(c C, r *R) error
	// Cases is the number of generated cases for this shard (use vf.N).
	Cases int
	// Samples to keep in evidence (default 4).
	Samples int
	// MaxRate bounds, per finding class, the fraction of generated cases that may fall back on the class
	// exclusion (i.e. fail inside the recorded class). The classes are carved out by input predicates, but a
	// change that makes many more inputs of a class fail is still a regression: exceeding the bound (set
	// several times above the rate measured on the unchanged tree) is reported as a violation.
	MaxRate map[string]float64
	// BaseRate is, per finding class, the rate of such fall-backs measured on the recorded tree (several seeds of the
	// quick tier). The driver reports a violation when the count of all shards together exceeds 1.3 times the expected
	// count by more than five standard deviations: with the case counts of the thorough tier a rise by half is
	// detected, which the fixed bounds of MaxRate (several times the rate) do not see.
	BaseRate map[string]float64
	// OtherFailure, if set, is asked about the error an open finding's input produces when it is replayed: true
	// means the input fails in a way the finding does not describe, which is reported as a violation.
	OtherFailure func(findingID string, err error) bool
}

// SafeCheck runs p.Check converting a panic into an error.
func (p Prop[C]) SafeCheck(c C, r *R) (err error) {
	defer func() {
		if x := recover(); x != nil {
			err = fmt.Errorf("panic in check: %v\n%s", x, trimStack(debug.Stack()))
		}
	}()
	return p.Check(c, r)
}

func trimStack(b []byte) string {
	s := string(b)
	if len(s) > 3000 {
		s = s[:3000]
	}
	return s
}

func caseHash(sub string, c any) (uint64, []byte) {
	b, err := json.Marshal(c)
	if err != nil {
		b = []byte(fmt.Sprintf("%#v", c))
	}
	h := fnv.New64a()
	h.Write([]byte(sub))
	h.Write(b)
	return h.Sum64(), b
}

func (p Prop[C]) stats() *subStats {
	mu.Lock()
	defer mu.Unlock()
	st := res.Subs[p.Sub]
	if st == nil {
		st = &subStats{Classes: map[string]int{}, Excluded: map[string]int{}}
		res.Subs[p.Sub] = st
	}
	return st
}

func (p Prop[C]) account(c C, r *R, st *subStats) {
	mu.Lock()
	defer mu.Unlock()
	st.Evaluations++
	for _, k := range r.classes {
		st.Classes[k]++
	}
	for _, k := range r.excluded {
		st.Excluded[k]++
	}
	if r.nontrivial {
		h, _ := caseHash(p.Sub, c)
		if _, ok := hashes[h]; !ok {
			hashes[h] = struct{}{}
			st.NonTrivial++
			ns := p.Samples
			if ns == 0 {
				ns = 4
			}
			// keep samples at exponentially spaced positions so that they are not all the first few
			k := st.NonTrivial
			if len(st.Samples) < ns && (k == 1 || k == 7 || k == 50 || k == 300 || k == 2000 || k == 10000) {
				st.Samples = append(st.Samples, map[string]any{"sub": p.Sub, "case": c, "classes": append([]string(nil), r.classes...)})
			}
		}
	}
}

func recordViolation(sub, origin string, c any, err error) string {
	_, b := caseHash(sub, c)
	h := fnv.New64a()
	h.Write(b)
	dir := filepath.Join(verifDir, "replays", propID)
	_ = os.MkdirAll(dir, 0o755)
	path := filepath.Join(dir, fmt.Sprintf("%s-%016x.json", sub, h.Sum64()))
	rf := replayFile{Property: propID, Sub: sub, Error: err.Error(), Case: b}
	out, _ := json.MarshalIndent(rf, "", " ")
	_ = os.WriteFile(path, out, 0o644)
	mu.Lock()
	res.Violations = append(res.Violations, violation{Sub: sub, Error: firstLines(err.Error(), 6), Replay: path, Origin: origin})
	mu.Unlock()
	return path
}

// RecordViolation lets a check with its own driver loop (e.g. the schedule explorer of C20) report.
func RecordViolation(sub string, c any, err error) string {
	return recordViolation(sub, "generated", c, err)
}

func firstLines(s string, n int) string {
	l := strings.SplitN(s, "\n", n+1)
	if len(l) > n {
		l = l[:n]
	}
	return strings.Join(l, "\n")
}

// Run executes the sub-property: corpus and known findings first (without rapid), then generated cases.
func Run[C any](t *testing.T, p Prop[C]) {
	t.Helper()
	if rp := os.Getenv("VERIF_REPLAY"); rp != "" {
		replayOne(t, p, rp)
		return
	}
	st := p.stats()
	start := time.Now()
	defer func() { st.WallS += time.Since(start).Seconds() }()
	if shard == 0 {
		runKnown(t, p)
		runCorpus(t, p)
	}
	if p.Gen == nil || p.Cases <= 0 || t.Failed() {
		return
	}
	n := p.Cases
	st.Requested += n
	_ = flag.Set("rapid.checks", strconv.Itoa(n))
	_ = flag.Set("rapid.seed", strconv.FormatUint(rapidSeed(p.Sub), 10))
	if testing.Short() {
		t.Fatalf("do not run with -short")
	}
	type failure struct {
		c   C
		err error
	}
	var last *failure
	defer func() {
		if last != nil {
			path := recordViolation(p.Sub, "generated", last.c, last.err)
			t.Logf("VIOLATION-CANDIDATE %s/%s replay=%s", propID, p.Sub, path)
		}
	}()
	var firstExcluded = map[string]any{}
	rapid.Check(t, func(rt *rapid.T) {
		c := p.Gen(rt)
		r := &R{}
		err := p.SafeCheck(c, r)
		p.account(c, r, st)
		for _, id := range r.excluded {
			if _, ok := firstExcluded[id]; !ok {
				firstExcluded[id] = c
			}
		}
		if err != nil {
			last = &failure{c, err}
			rt.Fatalf("%s/%s: %v", propID, p.Sub, err)
		}
	})
	// rate guards (Prop.MaxRate): the driver sums the counts of all shards and decides
	mu.Lock()
	if len(p.MaxRate)+len(p.BaseRate) > 0 {
		st.MaxRate, st.BaseRate = p.MaxRate, p.BaseRate
		st.FirstExcluded = map[string]any{}
		for id, c := range firstExcluded {
			_, a := p.MaxRate[id]
			_, b := p.BaseRate[id]
			if a || b {
				st.FirstExcluded[id] = c
			}
		}
	}
	mu.Unlock()
}

func decodeCase[C any](raw json.RawMessage) (C, error) {
	var c C
	err := json.Unmarshal(raw, &c)
	return c, err
}

func replayOne[C any](t *testing.T, p Prop[C], path string) {
	b, err := os.ReadFile(path)
	if err != nil {
		t.Fatalf("replay: %v", err)
	}
	var rf replayFile
	if err := json.Unmarshal(b, &rf); err != nil {
		t.Fatalf("replay: %v", err)
	}
	if rf.Property != propID || rf.Sub != p.Sub {
		return
	}
	c, err := decodeCase[C](rf.Case)
	if err != nil {
		t.Fatalf("replay: cannot decode case: %v", err)
	}
	r := &R{strict: os.Getenv("VERIF_REPLAY_STRICT") == "1"}
	st := p.stats()
	st.Evaluations++
	if err := p.SafeCheck(c, r); err != nil {
		recordViolation(p.Sub, "replay", c, err)
		t.Errorf("replay %s fails: %v", path, err)
	} else {
		t.Logf("replay %s passes (excluded=%v)", path, r.excluded)
	}
}

var (
	findingsOnce sync.Once
	findings     []Finding
)

func loadFindings() []Finding {
	findingsOnce.Do(func() {
		b, err := os.ReadFile(filepath.Join(verifDir, "known_findings.json"))
		if err != nil {
			return
		}
		var f struct {
			Findings []Finding `json:"findings"`
		}
		if err := json.Unmarshal(b, &f); err == nil {
			findings = f.Findings
		}
	})
	return findings
}

func runKnown[C any](t *testing.T, p Prop[C]) {
	for _, f := range loadFindings() {
		if f.Property != propID || f.Sub != p.Sub || len(f.Case) == 0 {
			continue
		}
		c, err := decodeCase[C](f.Case)
		if err != nil {
			t.Errorf("known finding %s: cannot decode case: %v", f.ID, err)
			continue
		}
		// open findings are replayed with the finding classes disabled (the strict oracle must fail);
		// fixed findings are plain regression inputs and see the same oracle as generated cases
		r := &R{strict: f.Status != "fixed"}
		cerr := p.SafeCheck(c, r)
		switch f.Status {
		case "fixed":
			// a fixed entry suppresses nothing: its input is a plain regression case
			mu.Lock()
			res.Corpus++
			mu.Unlock()
			if cerr != nil {
				recordViolation(p.Sub, "fixed-finding "+f.ID, c, cerr)
				t.Errorf("fixed finding %s fails again: %v", f.ID, cerr)
			}
		default:
			if cerr != nil && p.OtherFailure != nil && p.OtherFailure(f.ID, cerr) {
				recordViolation(p.Sub, "input of finding "+f.ID+" fails differently", c, cerr)
				t.Errorf("the input of known finding %s fails in a way the finding does not describe: %v", f.ID, cerr)
				continue
			}
			kr := knownResult{ID: f.ID, Sub: p.Sub, What: f.What, Reproduced: cerr != nil}
			if cerr != nil {
				kr.Detail = firstLines(cerr.Error(), 2)
			}
			mu.Lock()
			res.Known = append(res.Known, kr)
			mu.Unlock()
		}
	}
}

func runCorpus[C any](t *testing.T, p Prop[C]) {
	files, _ := filepath.Glob(filepath.Join(verifDir, "corpus", propID, p.Sub+"-*.json"))
	sort.Strings(files)
	for _, fn := range files {
		b, err := os.ReadFile(fn)
		if err != nil {
			continue
		}
		var rf replayFile
		if err := json.Unmarshal(b, &rf); err != nil || rf.Sub != p.Sub {
			t.Errorf("corpus %s: bad file", fn)
			continue
		}
		c, err := decodeCase[C](rf.Case)
		if err != nil {
			t.Errorf("corpus %s: %v", fn, err)
			continue
		}
		r := &R{}
		cerr := p.SafeCheck(c, r)
		mu.Lock()
		res.Corpus++
		mu.Unlock()
		if cerr != nil {
			recordViolation(p.Sub, "corpus "+filepath.Base(fn), c, cerr)
			t.Errorf("corpus %s fails: %v", fn, cerr)
		}
	}
}

// Try runs f and returns a non-nil error if it panics.
func Try(what string, f func()) (err error) {
	defer func() {
		if x := recover(); x != nil {
			err = fmt.Errorf("panic in %s: %v\n%s", what, x, trimStack(debug.Stack()))
		}
	}()
	f()
	return nil
}

// Watchdog runs f; if it does not return within d the case is recorded as a (hang) violation and the
// process exits with status 3 after flushing the shard file. A goroutine cannot be killed, hence the exit.
func Watchdog(sub string, c any, d time.Duration, f func()) {
	done := make(chan any, 1)
	go func() {
		defer func() { done <- recover() }()
		f()
	}()
	timer := time.NewTimer(d)
	defer timer.Stop()
	select {
	case x := <-done:
		if x != nil {
			panic(x)
		}
	case <-timer.C:
		recordViolation(sub, "generated", c, fmt.Errorf("call did not return within %v (hang)", d))
		writeShard()
		os.Exit(3)
	}
}

// ErrHang is returned by WatchdogErr.
var ErrHang = fmt.Errorf("call did not return (hang)")

// WatchdogErr runs f; if it does not return within d it returns ErrHang and leaves f running in its goroutine (which
// cannot be killed and keeps a core busy until the process ends). For calls whose non-termination on some inputs is a
// recorded finding: the check decides whether the input is of that class.
func WatchdogErr(d time.Duration, f func()) error {
	done := make(chan any, 1)
	go func() {
		defer func() { done <- recover() }()
		f()
	}()
	timer := time.NewTimer(d)
	defer timer.Stop()
	select {
	case x := <-done:
		if x != nil {
			panic(x)
		}
		return nil
	case <-timer.C:
		return fmt.Errorf("%w within %v", ErrHang, d)
	}
}

// Errorf is fmt.Errorf (saves an import in property files).
func Errorf(format string, a ...any) error { return fmt.Errorf(format, a...) }

// Max tracks the maximum of a named metric (with the case description that produced it) in the shard notes.
// Used to make calibration margins visible in the evidence.
func Max(key string, v float64, desc string) {
	mu.Lock()
	defer mu.Unlock()
	if res.Notes == nil {
		res.Notes = map[string]any{}
	}
	cur, ok := res.Notes["max:"+key].(map[string]any)
	if !ok || v > cur["value"].(float64) {
		res.Notes["max:"+key] = map[string]any{"value": v, "case": desc}
	}
}
