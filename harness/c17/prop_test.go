package c17

import (
	"math"
	"testing"

	"github.com/tdewolff/canvas/text"
	"pgregory.net/rapid"

	"verif/harness/vf"
)

func TestMain(m *testing.M) { vf.Main(m, "C17") }

const inf = 1000.0 // text.Infinity (documented constant)

// It is one item: T 0 box, 1 glue, 2 penalty.
type It struct {
	T int     `json:"t"`
	W float64 `json:"w"`
	Y float64 `json:"y,omitempty"`
	Z float64 `json:"z,omitempty"`
	P float64 `json:"p,omitempty"`
	F bool    `json:"f,omitempty"`
}

type Case struct {
	Items     []It    `json:"items"`
	Width     float64 `json:"width"`
	Looseness int     `json:"looseness"`
	// Tunables holds the documented package-level parameters DemeritsLine, DemeritsFlagged, DemeritsFitness for this case (nil: defaults 10, 100, 100)
	Tunables []float64 `json:"tunables,omitempty"`
}

func (c Case) items() []text.Item {
	out := make([]text.Item, len(c.Items))
	for i, it := range c.Items {
		switch it.T {
		case 0:
			out[i] = text.Box(it.W)
		case 1:
			out[i] = text.Glue(it.W, it.Y, it.Z)
		default:
			out[i] = text.Penalty(it.W, it.P, it.F)
		}
	}
	return out
}

func genCase(t *rapid.T) Case {
	var c Case
	if rapid.Bool().Draw(t, "tuned") {
		c.Tunables = []float64{[]float64{10, 1, 50}[rapid.IntRange(0, 2).Draw(t, "dline")], []float64{100, 0, 1000}[rapid.IntRange(0, 2).Draw(t, "dflag")], []float64{3000, 1000, 100, 0}[rapid.IntRange(0, 3).Draw(t, "dfit")]}
	}
	n := rapid.IntRange(1, 11).Draw(t, "nwords")
	ragged := rapid.IntRange(0, 7).Draw(t, "ragged") == 0
	frac := rapid.Bool().Draw(t, "frac") // fractional widths make exact threshold ties rare
	fr := func() float64 {
		if frac {
			return float64(rapid.IntRange(0, 99).Draw(t, "fr")) / 100
		}
		return 0
	}
	intShrink := !frac && rapid.Bool().Draw(t, "intshrink")
	for i := 0; i < n; i++ {
		c.Items = append(c.Items, It{T: 0, W: float64(rapid.IntRange(1, 12).Draw(t, "bw")) + fr()})
		if rapid.IntRange(0, 4).Draw(t, "hy") == 0 {
			// in-word penalty; its width never exceeds the following box (monotone minimum line length)
			bw2 := rapid.IntRange(1, 8).Draw(t, "bw2")
			// (a penalty as wide as the following box gives two breaks with lines of equal length: seed C17-7)
			pw := []int{0, 1, bw2, bw2}[rapid.IntRange(0, 3).Draw(t, "pw")]
			c.Items = append(c.Items, It{T: 2, W: float64(pw), P: float64(rapid.SampledFrom([]int{0, 50, 500, -20, 1000}).Draw(t, "pp")), F: rapid.Bool().Draw(t, "fl")})
			c.Items = append(c.Items, It{T: 0, W: float64(bw2) + fr()})
		}
		if i < n-1 {
			switch k := rapid.IntRange(0, 9).Draw(t, "sep"); {
			case k == 0: // forced break
				c.Items = append(c.Items, It{T: 1, W: 0, Y: inf}, It{T: 2, P: -inf})
				if rapid.IntRange(0, 2).Draw(t, "leadglue") == 0 {
					// the new line starts with (discardable) glue, as in "aaa\n bbb"
					w := float64(rapid.IntRange(1, 4).Draw(t, "lgw"))
					c.Items = append(c.Items, It{T: 1, W: w, Y: w / 2, Z: w / 3})
				}
			case k == 1: // consecutive glue
				w := float64(rapid.IntRange(1, 3).Draw(t, "gw"))
				c.Items = append(c.Items, It{T: 1, W: w, Y: w / 2, Z: w / 3}, It{T: 1, W: w, Y: w / 2, Z: w / 3})
			case ragged: // ragged-right triple
				w := float64(rapid.IntRange(1, 4).Draw(t, "gw"))
				s := 3 * w
				c.Items = append(c.Items, It{T: 1, W: 0, Y: s}, It{T: 2, P: 0}, It{T: 1, W: w, Y: -s})
			default:
				w := float64(rapid.IntRange(1, 4).Draw(t, "gw"))
				gl := It{T: 1, W: w, Y: w * float64(rapid.IntRange(0, 3).Draw(t, "gy")) / 2, Z: w * float64(rapid.IntRange(0, 3).Draw(t, "gz")) / 3}
				if intShrink {
					// whole-number shrink: with whole-number widths lines at exactly ratio -1 become common
					gl.Z = math.Min(w, float64(rapid.IntRange(0, 2).Draw(t, "gzi")))
				}
				c.Items = append(c.Items, gl)
			}
		}
	}
	c.Items = append(c.Items, It{T: 1, W: 0, Y: inf}, It{T: 2, P: -inf})
	c.Width = float64(rapid.IntRange(4, 40).Draw(t, "width")) + fr()
	if rapid.IntRange(0, 4).Draw(t, "loose") == 0 {
		c.Looseness = rapid.SampledFrom([]int{-1, 1}).Draw(t, "looseness")
	}
	return c
}

type lbOracle struct {
	items []It
	width float64
	// exact: every width, stretch and shrink and the line width is a multiple of 1/4 below 2^20, so that all running sums
	// and their differences are exact in float64 in any order and a ratio on a threshold is on it in every correct
	// implementation (division is correctly rounded): such cases are decided in full (seed C17-7 lives at ratio == -1)
	exact bool
}

func quarter(v float64) bool { return math.Abs(v) < 1<<20 && v*4 == math.Trunc(v*4) }

func allQuarter(items []It, width float64) bool {
	for _, it := range items {
		if !quarter(it.W) || !quarter(it.Y) || !quarter(it.Z) {
			return false
		}
	}
	return quarter(width)
}

// legal breakpoint as in the statement: a finite penalty, or glue directly after a box and not directly before a penalty
func (o *lbOracle) legal(b int) bool {
	it := o.items[b]
	if it.T == 2 {
		return it.P < inf
	}
	if it.T == 1 {
		return b > 0 && o.items[b-1].T == 0 && b+1 < len(o.items) && o.items[b+1].T != 2
	}
	return false
}

func (o *lbOracle) forced(b int) bool { return o.items[b].T == 2 && o.items[b].P <= -inf }

// natural width / stretch / shrink of the line that starts after break a (-1: start) and ends at break b.
// After a break, glue is discarded up to the next box (or forced break); a penalty's width counts only at the break.
func (o *lbOracle) line(a, b int) (L, Y, Z float64) {
	start := 0
	if a >= 0 {
		start = a
		if o.items[a].T == 2 {
			start = a + 1
		}
		for start < b {
			it := o.items[start]
			if it.T == 0 || o.forced(start) {
				break
			}
			start++
		}
	}
	for k := start; k < b; k++ {
		it := o.items[k]
		if it.T == 0 {
			L += it.W
		} else if it.T == 1 {
			L += it.W
			Y += it.Y
			Z += it.Z
		}
	}
	if o.items[b].T == 2 {
		L += o.items[b].W
	}
	return
}

func (o *lbOracle) ratio(a, b int) float64 {
	L, Y, Z := o.line(a, b)
	if L < o.width {
		if Y == 0 {
			return inf * (1 + (o.width-L)/o.width)
		}
		return math.Min((o.width-L)/Y, inf)
	} else if o.width < L {
		return math.Min((o.width-L)/Z, inf)
	}
	return 0
}

func fitness(r float64) int {
	if r < -0.5 {
		return 0
	} else if r <= 0.5 {
		return 1
	} else if r <= 1 {
		return 2
	}
	return 3
}

func (o *lbOracle) demerits(a, b int, r float64, prevFit int) (float64, int) {
	it := o.items[b]
	bad := 100 * math.Pow(math.Abs(r), 3)
	var d float64
	switch {
	case it.T == 2 && it.P >= 0:
		d = math.Pow(text.DemeritsLine+bad+it.P, 2)
	case it.T == 2 && it.P > -inf:
		d = math.Pow(text.DemeritsLine+bad, 2) - it.P*it.P
	default:
		d = math.Pow(text.DemeritsLine+bad, 2)
	}
	aFlag := o.items[0].F
	if a >= 0 {
		aFlag = o.items[a].F
	}
	if aFlag && it.F {
		d += text.DemeritsFlagged
	}
	c := fitness(r)
	if math.Abs(float64(c-prevFit)) > 1 {
		d += text.DemeritsFitness
	}
	return d, c
}

type bruteResult struct {
	best      float64 // minimal demerits among breakings with all ratios in [-1,tol]
	nFeasible int     // number of such breakings
	fits      bool    // some breaking has all ratios >= -1
	minimax   float64 // min over breakings with all ratios >= -1 of the max ratio
	total     int
	ambiguous bool // some candidate line has a ratio within 1e-9 of a decision threshold (-1, -0.5, 0.5, 1, Tolerance)
}

func (o *lbOracle) brute(tol float64) bruteResult {
	n := len(o.items)
	last := n - 1
	res := bruteResult{best: math.Inf(1), minimax: math.Inf(1)}
	var rec func(a int, dem float64, fit int, ok, okFit bool, maxr float64)
	rec = func(a int, dem float64, fit int, ok, okFit bool, maxr float64) {
		if a == last {
			res.total++
			if ok {
				res.nFeasible++
				if dem < res.best {
					res.best = dem
				}
			}
			if okFit {
				res.fits = true
				if maxr < res.minimax {
					res.minimax = maxr
				}
			}
			return
		}
		for b := a + 1; b < n; b++ {
			if !o.legal(b) {
				continue
			}
			r := o.ratio(a, b)
			if L, _, _ := o.line(a, b); !o.exact && math.Abs(L-o.width) < 1e-9*(1+o.width) {
				res.ambiguous = true // exact fit: rounding in the running sums decides between ratio 0 and over/underfull
			}
			for _, thr := range []float64{-1, -0.5, 0.5, 1, tol} {
				if math.Abs(r-thr) < 1e-9 && !(o.exact && r == thr) {
					res.ambiguous = true
				}
			}
			d, c := o.demerits(a, b, r, fit)
			rec(b, dem+d, c, ok && r >= -1 && r <= tol, okFit && r >= -1, math.Max(maxr, r))
			if o.forced(b) {
				break
			}
		}
	}
	rec(-1, 0, 1, true, true, math.Inf(-1))
	return res
}

func checkCase(c Case, r *vf.R) error {
	if len(c.Tunables) == 3 {
		l, fl, fi := text.DemeritsLine, text.DemeritsFlagged, text.DemeritsFitness
		text.DemeritsLine, text.DemeritsFlagged, text.DemeritsFitness = c.Tunables[0], c.Tunables[1], c.Tunables[2]
		defer func() { text.DemeritsLine, text.DemeritsFlagged, text.DemeritsFitness = l, fl, fi }()
		r.Class("non-default-tunables")
	}
	o := &lbOracle{items: c.Items, width: c.Width, exact: allQuarter(c.Items, c.Width)}
	r.ClassIf(o.exact, "exact-arithmetic(thresholds decided)")
	items := c.items()
	orig := append([]text.Item(nil), items...)
	var brs []*text.Breakpoint
	var ok bool
	if err := vf.Try("Linebreak", func() { brs, ok = text.Linebreak(items, c.Width, c.Looseness) }); err != nil {
		return err
	}
	for i := range items {
		if items[i] != orig[i] {
			return vf.Errorf("Linebreak modified item %d of its input", i)
		}
	}
	br := o.brute(text.Tolerance)
	switch {
	case br.nFeasible > 0:
		r.Class("regime:feasible")
	case br.fits:
		r.Class("regime:relaxed")
	default:
		r.Class("regime:overflow")
	}
	if c.Looseness != 0 {
		r.Class("looseness!=0")
	}
	if r.ClassIf(br.ambiguous, "ratio-on-threshold(structural checks only)") {
	} else if len(brs) >= 2 && br.total >= 2 {
		r.Class("multi-line")
		if br.nFeasible >= 2 || (br.nFeasible == 0 && br.total >= 3) {
			r.NonTrivial()
		}
	}

	prev := -1
	dem := 0.0
	fit := 1
	allIn, allFit := true, true
	maxr := math.Inf(-1)
	forcedSeen := map[int]bool{}
	for li, b := range brs {
		if b.Position <= prev || b.Position >= len(c.Items) {
			return vf.Errorf("breakpoints not strictly increasing / out of range: line %d position %d after %d", li, b.Position, prev)
		}
		if !o.legal(b.Position) {
			return vf.Errorf("illegal breakpoint at item %d", b.Position)
		}
		for k := prev + 1; k < b.Position; k++ {
			if o.forced(k) {
				return vf.Errorf("forced break at item %d skipped (line %d ends at %d)", k, li, b.Position)
			}
		}
		forcedSeen[b.Position] = true
		ra := o.ratio(prev, b.Position)
		d, cl := o.demerits(prev, b.Position, ra, fit)
		dem += d
		fit = cl
		if ra < -1 || ra > text.Tolerance {
			allIn = false
		}
		if ra < -1 {
			allFit = false
		}
		maxr = math.Max(maxr, ra)
		L, _, _ := o.line(prev, b.Position)
		if math.Abs(L-b.Width) > 1e-9*(1+math.Abs(L)) {
			return vf.Errorf("line %d (items %d..%d): reported Width %v, natural width of that line %v", li, prev+1, b.Position, b.Width, L)
		}
		wantRatio := ra
		if ra < -1 || ra > text.Tolerance {
			wantRatio = 0
		}
		onEdge := math.Abs(ra+1) < 1e-9 || math.Abs(ra-text.Tolerance) < 1e-9
		if onEdge && (math.Abs(b.Ratio) < 1e-9 || math.Abs(b.Ratio-ra) < 1e-9) {
			// ratio on the edge of [-1,Tolerance]: either report is acceptable
		} else if ok && math.Abs(wantRatio-b.Ratio) > 1e-9*(1+math.Abs(wantRatio)) {
			return vf.Errorf("line %d: reported Ratio %v, ratio of that line %v", li, b.Ratio, wantRatio)
		}
		prev = b.Position
	}
	if prev != len(c.Items)-1 {
		return vf.Errorf("breaking does not end at the final forced break (ends at %d of %d)", prev, len(c.Items)-1)
	}
	if br.ambiguous {
		// a line's ratio sits on a threshold: floating-point summation order decides the class; only the
		// structural part above is decided for such cases
		return nil
	}
	switch {
	case br.nFeasible > 0:
		if !ok {
			return vf.Errorf("overflow reported although a breaking within [-1,Tolerance] exists")
		}
		if !allIn {
			return vf.Errorf("a breaking with all ratios in [-1,Tolerance] exists but the returned one leaves that range")
		}
		if c.Looseness == 0 && dem > br.best+1e-6*(1+math.Abs(br.best)) {
			return vf.Errorf("not optimal: returned demerits %v, minimum %v", dem, br.best)
		}
	case br.fits:
		if !ok {
			return vf.Errorf("overflow reported although every line of some breaking can be shrunk to fit")
		}
		if !allFit {
			return vf.Errorf("some breaking fits but the returned one has a line with ratio < -1")
		}
		if c.Looseness == 0 && maxr > br.minimax+1e-9*(1+math.Abs(br.minimax)) {
			return vf.Errorf("stretch limit relaxed further than needed: returned max ratio %v, achievable %v", maxr, br.minimax)
		}
	default:
		if ok {
			return vf.Errorf("no breaking fits, yet no overflow reported")
		}
	}
	return nil
}

func TestKP(t *testing.T) {
	vf.Run(t, vf.Prop[Case]{Sub: "kp", Gen: genCase, Check: checkCase, Cases: vf.N(100000, 400000)})
}
