package oracle

import (
	"math"
	"os/exec"
	"strings"
	"testing"
)

func near(a, b, tol float64) bool { return math.Abs(a-b) <= tol }

func TestSelf(t *testing.T) {
	// unit circle as two arcs: M1 0 A1 1 0 0 1 -1 0 A1 1 0 0 1 1 0 z
	d := []float64{1, 1, 0, 1, 16, 1, 1, 0, 2, -1, 0, 16, 16, 1, 1, 0, 2, 1, 0, 16, 32, 1, 0, 32}
	segs, err := Decode(d)
	if err != nil {
		t.Fatal(err)
	}
	polys := Sample(segs, 2000)
	if a := Area(polys); !near(a, math.Pi, 1e-5) {
		t.Fatalf("circle area %v", a)
	}
	if l := Length(polys); !near(l, 2*math.Pi, 1e-5) {
		t.Fatalf("circle length %v", l)
	}
	if w, dist := Winding(polys, Pt{0.2, 0.1}); w != 1 || !near(dist, 1-math.Hypot(0.2, 0.1), 1e-5) {
		t.Fatalf("winding %v dist %v", w, dist)
	}
	if w, _ := Winding(polys, Pt{2, 0}); w != 0 {
		t.Fatalf("outside winding %v", w)
	}
	// sweep=1 is counter-clockwise in a y-up system: midpoint of first arc is (0,1)
	if p := segs[1].Eval(0.5); !near(p.X, 0, 1e-12) || !near(p.Y, 1, 1e-12) {
		t.Fatalf("arc midpoint %v", p)
	}
	// arc end point identities for a rotated ellipse
	s := Seg{Cmd: ArcTo, P0: Pt{1, 2}, Args: []float64{5, 2, 0.7, 3, 4, -1}}
	if p := s.ArcOf().At(s.ArcOf().Th0); p.Dist(Pt{1, 2}) > 1e-9 {
		t.Fatalf("arc start %v", p)
	}
	if p := s.ArcOf().At(s.ArcOf().Th0 + s.ArcOf().Dth); p.Dist(Pt{4, -1}) > 1e-9 {
		t.Fatalf("arc end %v", p)
	}
	// out-of-range radii are scaled: half circle
	s = Seg{Cmd: ArcTo, P0: Pt{0, 0}, Args: []float64{1, 1, 0, 0, 10, 0}}
	if a := s.ArcOf(); !near(a.Rx, 5, 1e-12) || !near(math.Abs(a.Dth), math.Pi, 1e-9) {
		t.Fatalf("radius correction %+v", a)
	}
	// bounds of a quad
	q := Seg{Cmd: QuadTo, P0: Pt{0, 0}, Args: []float64{1, 2, 2, 0}}
	if b := SegBounds(q, 64); !near(b.Y1, 1, 1e-9) || !near(b.X1, 2, 1e-12) {
		t.Fatalf("quad bounds %+v", b)
	}
	if dd, tt := SegDist(q, Pt{1, 3}, 64); !near(dd, 2, 1e-9) || !near(tt, 0.5, 1e-6) {
		t.Fatalf("segdist %v %v", dd, tt)
	}
	// framing errors
	if _, err := Decode([]float64{1, 0, 0, 2}); err == nil {
		t.Fatal("bad framing accepted")
	}
	if !SegsIntersectProper(Pt{0, 0}, Pt{2, 2}, Pt{0, 2}, Pt{2, 0}, 1e-9) || SegsIntersectProper(Pt{0, 0}, Pt{1, 1}, Pt{1, 1}, Pt{2, 0}, 1e-9) {
		t.Fatal("segment intersection")
	}
	m := Rotate(90).Mul(Translate(1, 0))
	if p := m.Apply(Pt{0, 0}); !near(p.X, 0, 1e-12) || !near(p.Y, 1, 1e-12) {
		t.Fatalf("mat %v", p)
	}
	if p := m.Inv().Apply(m.Apply(Pt{3, 4})); p.Dist(Pt{3, 4}) > 1e-12 {
		t.Fatalf("inv %v", p)
	}
}

// the oracle and the format readers must not depend on the library under test
func TestIndependence(t *testing.T) {
	for _, pkg := range []string{"verif/harness/oracle"} {
		out, err := exec.Command("go", "list", "-deps", pkg).CombinedOutput()
		if err != nil {
			t.Skipf("go list: %v %s", err, out)
		}
		if strings.Contains(string(out), "tdewolff/canvas") {
			t.Fatalf("%s imports canvas", pkg)
		}
	}
}
