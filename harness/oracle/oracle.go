// Package oracle is the independent geometric reference used by all path properties. It is written
// from the SVG 1.1 implementation notes and elementary geometry and must not import canvas.
package oracle

import (
	"fmt"
	"math"
)

// Pt is a point.
type Pt struct{ X, Y float64 }

func (p Pt) Sub(q Pt) Pt       { return Pt{p.X - q.X, p.Y - q.Y} }
func (p Pt) Add(q Pt) Pt       { return Pt{p.X + q.X, p.Y + q.Y} }
func (p Pt) Mul(f float64) Pt  { return Pt{p.X * f, p.Y * f} }
func (p Pt) Len() float64      { return math.Hypot(p.X, p.Y) }
func (p Pt) Dist(q Pt) float64 { return math.Hypot(p.X-q.X, p.Y-q.Y) }
func (p Pt) Dot(q Pt) float64  { return p.X*q.X + p.Y*q.Y }
func (p Pt) Cross(q Pt) float64 {
	return p.X*q.Y - p.Y*q.X
}

// Command values of canvas.Path.Data() (documented encoding: the command value sits at both ends of each record).
const (
	MoveTo  = 1.0
	LineTo  = 2.0
	QuadTo  = 4.0
	CubeTo  = 8.0
	ArcTo   = 16.0
	Close   = 32.0
)

// Seg is one decoded record.
type Seg struct {
	Cmd  float64
	P0   Pt        // current point before the command
	Args []float64 // values between the two command markers
}

func cmdLen(c float64) int {
	switch c {
	case MoveTo, LineTo, Close:
		return 4
	case QuadTo:
		return 6
	case CubeTo, ArcTo:
		return 8
	}
	return -1
}

// Decode decodes a raw data slice, validating the framing from both ends.
func Decode(d []float64) ([]Seg, error) {
	var segs []Seg
	var cur Pt
	for i := 0; i < len(d); {
		n := cmdLen(d[i])
		if n < 0 {
			return nil, fmt.Errorf("bad command value %v at %d", d[i], i)
		}
		if i+n > len(d) {
			return nil, fmt.Errorf("record at %d of length %d runs past the end (%d)", i, n, len(d))
		}
		if d[i+n-1] != d[i] {
			return nil, fmt.Errorf("record at %d: trailing command value %v != leading %v", i, d[i+n-1], d[i])
		}
		s := Seg{Cmd: d[i], P0: cur, Args: d[i+1 : i+n-1]}
		segs = append(segs, s)
		cur = s.End()
		i += n
	}
	// backward scan must visit the same record boundaries
	j := len(d)
	k := len(segs) - 1
	for j > 0 {
		n := cmdLen(d[j-1])
		if n < 0 || j-n < 0 || d[j-n] != d[j-1] {
			return nil, fmt.Errorf("backward scan fails at %d", j)
		}
		if k < 0 || segs[k].Cmd != d[j-1] {
			return nil, fmt.Errorf("backward scan disagrees with forward scan at %d", j)
		}
		j -= n
		k--
	}
	return segs, nil
}

// End returns the end point of the segment.
func (s Seg) End() Pt {
	n := len(s.Args)
	return Pt{s.Args[n-2], s.Args[n-1]}
}

// Arc describes an elliptical arc in centre form.
type Arc struct {
	C            Pt
	Rx, Ry, Phi  float64
	Th0, Dth     float64
}

// ArcCenter converts end-point to centre parametrisation (SVG 1.1 F.6.5/F.6.6), phi in radians.
func ArcCenter(x1, y1, rx, ry, phi float64, large, sweep bool, x2, y2 float64) Arc {
	rx, ry = math.Abs(rx), math.Abs(ry)
	sp, cp := math.Sincos(phi)
	dx, dy := (x1-x2)/2, (y1-y2)/2
	x1p := cp*dx + sp*dy
	y1p := -sp*dx + cp*dy
	l := x1p*x1p/(rx*rx) + y1p*y1p/(ry*ry)
	if l > 1 {
		s := math.Sqrt(l)
		rx *= s
		ry *= s
	}
	num := rx*rx*ry*ry - rx*rx*y1p*y1p - ry*ry*x1p*x1p
	den := rx*rx*y1p*y1p + ry*ry*x1p*x1p
	sq := 0.0
	if num > 0 && den > 0 {
		sq = math.Sqrt(num / den)
	}
	if large == sweep {
		sq = -sq
	}
	cxp := sq * rx * y1p / ry
	cyp := -sq * ry * x1p / rx
	cx := cp*cxp - sp*cyp + (x1+x2)/2
	cy := sp*cxp + cp*cyp + (y1+y2)/2
	ang := func(ux, uy, vx, vy float64) float64 {
		return math.Atan2(ux*vy-uy*vx, ux*vx+uy*vy)
	}
	th0 := ang(1, 0, (x1p-cxp)/rx, (y1p-cyp)/ry)
	dth := ang((x1p-cxp)/rx, (y1p-cyp)/ry, (-x1p-cxp)/rx, (-y1p-cyp)/ry)
	if !sweep && dth > 0 {
		dth -= 2 * math.Pi
	} else if sweep && dth < 0 {
		dth += 2 * math.Pi
	}
	return Arc{Pt{cx, cy}, rx, ry, phi, th0, dth}
}

// At evaluates the arc at angle parameter th.
func (a Arc) At(th float64) Pt {
	sp, cp := math.Sincos(a.Phi)
	st, ct := math.Sincos(th)
	return Pt{a.C.X + a.Rx*ct*cp - a.Ry*st*sp, a.C.Y + a.Rx*ct*sp + a.Ry*st*cp}
}

// ArcFlags decodes the flag value of the raw encoding (bit0 large, bit1 sweep).
func ArcFlags(f float64) (large, sweep bool) {
	return f == 1 || f == 3, f == 2 || f == 3
}

// ArcOf returns the centre form of an ArcTo segment.
func (s Seg) ArcOf() Arc {
	a := s.Args
	large, sweep := ArcFlags(a[3])
	return ArcCenter(s.P0.X, s.P0.Y, a[0], a[1], a[2], large, sweep, a[4], a[5])
}

// Eval evaluates the segment at t in [0,1].
func (s Seg) Eval(t float64) Pt {
	a := s.Args
	switch s.Cmd {
	case LineTo, Close:
		return Pt{s.P0.X + t*(a[0]-s.P0.X), s.P0.Y + t*(a[1]-s.P0.Y)}
	case QuadTo:
		u := 1 - t
		return Pt{u*u*s.P0.X + 2*u*t*a[0] + t*t*a[2], u*u*s.P0.Y + 2*u*t*a[1] + t*t*a[3]}
	case CubeTo:
		u := 1 - t
		b0, b1, b2, b3 := u*u*u, 3*u*u*t, 3*u*t*t, t*t*t
		return Pt{b0*s.P0.X + b1*a[0] + b2*a[2] + b3*a[4], b0*s.P0.Y + b1*a[1] + b2*a[3] + b3*a[5]}
	case ArcTo:
		if t == 0 {
			return s.P0
		} else if t == 1 {
			return s.End()
		}
		arc := s.ArcOf()
		return arc.At(arc.Th0 + t*arc.Dth)
	}
	return s.End()
}

// Curved reports whether the segment is a Bézier or an arc.
func (s Seg) Curved() bool { return s.Cmd == QuadTo || s.Cmd == CubeTo || s.Cmd == ArcTo }

// Poly is a sampled subpath.
type Poly struct {
	P      []Pt
	Closed bool
}

// Sample returns one polyline per subpath with n points per curved segment.
func Sample(segs []Seg, n int) []Poly {
	var polys []Poly
	var cur []Pt
	flush := func(closed bool) {
		if len(cur) > 0 {
			polys = append(polys, Poly{cur, closed})
		}
		cur = nil
	}
	for _, s := range segs {
		switch s.Cmd {
		case MoveTo:
			flush(false)
			cur = []Pt{s.End()}
		case LineTo, Close:
			if cur == nil {
				cur = []Pt{s.P0}
			}
			if s.Cmd == Close {
				// the closing segment returns to the first point: do not duplicate it
				if len(cur) > 0 && s.End() != cur[0] {
					cur = append(cur, s.End())
				}
				flush(true)
			} else {
				cur = append(cur, s.End())
			}
		default:
			if cur == nil {
				cur = []Pt{s.P0}
			}
			for i := 1; i <= n; i++ {
				cur = append(cur, s.Eval(float64(i)/float64(n)))
			}
		}
	}
	flush(false)
	return polys
}

// SampleData decodes and samples.
func SampleData(d []float64, n int) ([]Poly, error) {
	segs, err := Decode(d)
	if err != nil {
		return nil, err
	}
	return Sample(segs, n), nil
}

func cross3(a, b, q Pt) float64 { return (b.X-a.X)*(q.Y-a.Y) - (q.X-a.X)*(b.Y-a.Y) }

// DistSeg is the distance from q to segment ab.
func DistSeg(q, a, b Pt) float64 {
	dx, dy := b.X-a.X, b.Y-a.Y
	l2 := dx*dx + dy*dy
	t := 0.0
	if l2 > 0 {
		t = ((q.X-a.X)*dx + (q.Y-a.Y)*dy) / l2
		if t < 0 {
			t = 0
		} else if t > 1 {
			t = 1
		}
	}
	return math.Hypot(q.X-(a.X+t*dx), q.Y-(a.Y+t*dy))
}

// Winding returns the winding number of the implicitly closed polylines around q and the distance
// from q to the nearest (implicitly closed) boundary.
func Winding(polys []Poly, q Pt) (int, float64) {
	w := 0
	dmin := math.Inf(1)
	for _, poly := range polys {
		p := poly.P
		n := len(p)
		for i := 0; i < n; i++ {
			a, b := p[i], p[(i+1)%n]
			if d := DistSeg(q, a, b); d < dmin {
				dmin = d
			}
			if a.Y <= q.Y {
				if b.Y > q.Y && cross3(a, b, q) > 0 {
					w++
				}
			} else if b.Y <= q.Y && cross3(a, b, q) < 0 {
				w--
			}
		}
	}
	return w, dmin
}

// Crossings returns the number of boundary crossings of the ray from q to +x (implicitly closed).
func Crossings(polys []Poly, q Pt) int {
	c := 0
	for _, poly := range polys {
		p := poly.P
		n := len(p)
		for i := 0; i < n; i++ {
			a, b := p[i], p[(i+1)%n]
			if a.Y <= q.Y {
				if b.Y > q.Y && cross3(a, b, q) > 0 {
					c++
				}
			} else if b.Y <= q.Y && cross3(a, b, q) < 0 {
				c++
			}
		}
	}
	return c
}

// Dist is the distance from q to the polylines as drawn (closing edge only when Closed).
func Dist(polys []Poly, q Pt) float64 {
	dmin := math.Inf(1)
	for _, poly := range polys {
		p := poly.P
		n := len(p)
		m := n - 1
		if poly.Closed {
			m = n
		}
		if n == 1 {
			if d := q.Dist(p[0]); d < dmin {
				dmin = d
			}
		}
		for i := 0; i < m; i++ {
			if d := DistSeg(q, p[i], p[(i+1)%n]); d < dmin {
				dmin = d
			}
		}
	}
	return dmin
}

// Area is the signed area of the implicitly closed polylines.
func Area(polys []Poly) float64 {
	a := 0.0
	for _, poly := range polys {
		a += PolyArea(poly.P)
	}
	return a
}

// PolyArea is the signed area of one implicitly closed polygon.
func PolyArea(p []Pt) float64 {
	a := 0.0
	n := len(p)
	for i := 0; i < n; i++ {
		a += p[i].Cross(p[(i+1)%n])
	}
	return a / 2
}

// Length is the total length of the polylines as drawn.
func Length(polys []Poly) float64 {
	l := 0.0
	for _, poly := range polys {
		p := poly.P
		for i := 0; i+1 < len(p); i++ {
			l += p[i].Dist(p[i+1])
		}
		if poly.Closed && len(p) > 1 {
			l += p[len(p)-1].Dist(p[0])
		}
	}
	return l
}

// SegLength is the arc length of one segment by dense chords.
func SegLength(s Seg, n int) float64 {
	if s.Cmd == MoveTo {
		return 0
	}
	if !s.Curved() {
		return s.P0.Dist(s.End())
	}
	l := 0.0
	prev := s.P0
	for i := 1; i <= n; i++ {
		q := s.Eval(float64(i) / float64(n))
		l += prev.Dist(q)
		prev = q
	}
	return l
}

// Box is an axis-aligned box.
type Box struct{ X0, Y0, X1, Y1 float64 }

// EmptyBox is the identity for Extend.
func EmptyBox() Box { return Box{math.Inf(1), math.Inf(1), math.Inf(-1), math.Inf(-1)} }

func (b Box) Extend(p Pt) Box {
	return Box{math.Min(b.X0, p.X), math.Min(b.Y0, p.Y), math.Max(b.X1, p.X), math.Max(b.Y1, p.Y)}
}
func (b Box) W() float64 { return b.X1 - b.X0 }
func (b Box) H() float64 { return b.Y1 - b.Y0 }

// Size is max(width,height), at least tiny.
func (b Box) Size() float64 { return math.Max(math.Max(b.W(), b.H()), 1e-300) }
func (b Box) Contains(p Pt, eps float64) bool {
	return p.X >= b.X0-eps && p.X <= b.X1+eps && p.Y >= b.Y0-eps && p.Y <= b.Y1+eps
}

// Bounds of sampled polylines.
func Bounds(polys []Poly) Box {
	b := EmptyBox()
	for _, poly := range polys {
		for _, p := range poly.P {
			b = b.Extend(p)
		}
	}
	return b
}

// SegBounds returns the tight bounds of a segment: dense sampling refined by golden-section search.
func SegBounds(s Seg, n int) Box {
	b := EmptyBox().Extend(s.P0).Extend(s.End())
	if !s.Curved() {
		return b
	}
	coord := []func(Pt) float64{
		func(p Pt) float64 { return p.X }, func(p Pt) float64 { return -p.X },
		func(p Pt) float64 { return p.Y }, func(p Pt) float64 { return -p.Y },
	}
	for _, f := range coord {
		best, bi := math.Inf(-1), 0
		for i := 0; i <= n; i++ {
			if v := f(s.Eval(float64(i) / float64(n))); v > best {
				best, bi = v, i
			}
		}
		lo := math.Max(0, float64(bi-1)/float64(n))
		hi := math.Min(1, float64(bi+1)/float64(n))
		const g = 0.6180339887498949
		for k := 0; k < 60; k++ {
			m1 := hi - g*(hi-lo)
			m2 := lo + g*(hi-lo)
			if f(s.Eval(m1)) < f(s.Eval(m2)) {
				lo = m1
			} else {
				hi = m2
			}
		}
		b = b.Extend(s.Eval((lo + hi) / 2))
	}
	return b
}

// MaxDistTo returns max over pts of the distance to polys (one-sided Hausdorff) and the worst point.
func MaxDistTo(pts []Pt, polys []Poly) (float64, Pt) {
	worst := 0.0
	var wp Pt
	for _, q := range pts {
		if d := Dist(polys, q); d > worst {
			worst, wp = d, q
		}
	}
	return worst, wp
}

// Points flattens polys into a point list (adds midpoints of long edges so that straight stretches are covered).
func Points(polys []Poly, maxStep float64) []Pt {
	var out []Pt
	for _, poly := range polys {
		p := poly.P
		n := len(p)
		m := n - 1
		if poly.Closed {
			m = n
		}
		if n == 1 {
			out = append(out, p[0])
		}
		for i := 0; i < m; i++ {
			a, b := p[i], p[(i+1)%n]
			out = append(out, a)
			if maxStep > 0 {
				k := int(a.Dist(b) / maxStep)
				if k > 200 {
					k = 200
				}
				for j := 1; j <= k; j++ {
					out = append(out, a.Add(b.Sub(a).Mul(float64(j)/float64(k+1))))
				}
			}
			if i == m-1 {
				out = append(out, b)
			}
		}
	}
	return out
}

// SegsIntersectProper reports whether segments ab and cd cross at a point interior to both
// (by more than eps in parameter-independent distance terms).
func SegsIntersectProper(a, b, c, d Pt, eps float64) bool {
	d1 := cross3(c, d, a)
	d2 := cross3(c, d, b)
	d3 := cross3(a, b, c)
	d4 := cross3(a, b, d)
	lab := a.Dist(b)
	lcd := c.Dist(d)
	if lab == 0 || lcd == 0 {
		return false
	}
	// signed distances
	s1, s2 := d1/lcd, d2/lcd
	s3, s4 := d3/lab, d4/lab
	return ((s1 > eps && s2 < -eps) || (s1 < -eps && s2 > eps)) && ((s3 > eps && s4 < -eps) || (s3 < -eps && s4 > eps))
}

// SegsTouch reports whether closed segments ab and cd have a common point (within eps).
func SegsTouch(a, b, c, d Pt, eps float64) bool {
	if SegsIntersectProper(a, b, c, d, 0) {
		return true
	}
	return DistSeg(a, c, d) <= eps || DistSeg(b, c, d) <= eps || DistSeg(c, a, b) <= eps || DistSeg(d, a, b) <= eps
}

// Edges lists the edges of the polys (with implicit closing when implicitClose).
func Edges(polys []Poly, implicitClose bool) [][2]Pt {
	var es [][2]Pt
	for _, poly := range polys {
		p := poly.P
		n := len(p)
		m := n - 1
		if (poly.Closed || implicitClose) && n > 1 {
			m = n
		}
		for i := 0; i < m; i++ {
			a, b := p[i], p[(i+1)%n]
			if a != b {
				es = append(es, [2]Pt{a, b})
			}
		}
	}
	return es
}

// SelfIntersects reports whether any two non-adjacent edges of the polys touch, or adjacent ones overlap.
func SelfIntersects(polys []Poly, eps float64) bool {
	type edge struct {
		a, b Pt
		poly int
		i, n int
	}
	var es []edge
	for k, poly := range polys {
		// repeated points (a zero-length closing segment after a curve that returns to the start) are dropped
		// first, so that the edges on both sides of them are recognised as adjacent
		var p []Pt
		for _, q := range poly.P {
			if len(p) == 0 || p[len(p)-1] != q {
				p = append(p, q)
			}
		}
		for len(p) > 1 && p[len(p)-1] == p[0] {
			p = p[:len(p)-1]
		}
		n := len(p)
		for i := 0; i < n; i++ {
			a, b := p[i], p[(i+1)%n]
			if a == b {
				continue
			}
			es = append(es, edge{a, b, k, i, n})
		}
	}
	for i := 0; i < len(es); i++ {
		for j := i + 1; j < len(es); j++ {
			e, f := es[i], es[j]
			adjacent := e.poly == f.poly && (f.i == e.i+1 || (e.i == 0 && f.i == e.n-1))
			if adjacent {
				// adjacent edges share a vertex; they intersect elsewhere only if they fold back
				var shared, o1, o2 Pt
				if f.i == e.i+1 {
					shared, o1, o2 = e.b, e.a, f.b
				} else {
					shared, o1, o2 = e.a, e.b, f.a
				}
				u, v := o1.Sub(shared), o2.Sub(shared)
				if math.Abs(u.Cross(v)) <= eps*math.Max(u.Len(), v.Len()) && u.Dot(v) > 0 {
					return true
				}
				continue
			}
			if SegsTouch(e.a, e.b, f.a, f.b, eps) {
				return true
			}
		}
	}
	return false
}

// BoundaryTouch reports whether some edge of A touches some edge of B.
func BoundaryTouch(A, B []Poly, eps float64) bool {
	ea, eb := Edges(A, true), Edges(B, true)
	for _, e := range ea {
		for _, f := range eb {
			if SegsTouch(e[0], e[1], f[0], f[1], eps) {
				return true
			}
		}
	}
	return false
}

// Mat is an independent 2x3 affine matrix [a b c; d e f].
type Mat [6]float64

func Identity() Mat { return Mat{1, 0, 0, 0, 1, 0} }

// Mul returns m∘n (apply n first, then m).
func (m Mat) Mul(n Mat) Mat {
	return Mat{
		m[0]*n[0] + m[1]*n[3], m[0]*n[1] + m[1]*n[4], m[0]*n[2] + m[1]*n[5] + m[2],
		m[3]*n[0] + m[4]*n[3], m[3]*n[1] + m[4]*n[4], m[3]*n[2] + m[4]*n[5] + m[5],
	}
}
func (m Mat) Apply(p Pt) Pt {
	return Pt{m[0]*p.X + m[1]*p.Y + m[2], m[3]*p.X + m[4]*p.Y + m[5]}
}
func (m Mat) Det() float64 { return m[0]*m[4] - m[1]*m[3] }
func (m Mat) Inv() Mat {
	d := m.Det()
	return Mat{m[4] / d, -m[1] / d, (m[1]*m[5] - m[4]*m[2]) / d, -m[3] / d, m[0] / d, (m[3]*m[2] - m[0]*m[5]) / d}
}
func Translate(x, y float64) Mat { return Mat{1, 0, x, 0, 1, y} }
func Scale(x, y float64) Mat     { return Mat{x, 0, 0, 0, y, 0} }
func Rotate(deg float64) Mat {
	s, c := math.Sincos(deg * math.Pi / 180)
	return Mat{c, -s, 0, s, c, 0}
}
func Shear(x, y float64) Mat { return Mat{1, x, 0, y, 1, 0} }

// MaxScale is the largest singular value of the linear part.
func (m Mat) MaxScale() float64 {
	a, b, c, d := m[0], m[1], m[3], m[4]
	s1 := a*a + b*b + c*c + d*d
	s2 := math.Sqrt((a*a+b*b-c*c-d*d)*(a*a+b*b-c*c-d*d) + 4*(a*c+b*d)*(a*c+b*d))
	return math.Sqrt((s1 + s2) / 2)
}

// TransformPolys applies m to polys.
func TransformPolys(polys []Poly, m Mat) []Poly {
	out := make([]Poly, len(polys))
	for i, poly := range polys {
		q := make([]Pt, len(poly.P))
		for j, p := range poly.P {
			q[j] = m.Apply(p)
		}
		out[i] = Poly{q, poly.Closed}
	}
	return out
}

// SegDist returns the distance from q to segment s and the parameter of the nearest point: coarse
// sampling with n steps refined by golden-section search around the best samples.
func SegDist(s Seg, q Pt, n int) (float64, float64) {
	if !s.Curved() {
		a, b := s.P0, s.End()
		d := b.Sub(a)
		l2 := d.Dot(d)
		t := 0.0
		if l2 > 0 {
			t = math.Max(0, math.Min(1, q.Sub(a).Dot(d)/l2))
		}
		return q.Dist(a.Add(d.Mul(t))), t
	}
	best, bt := math.Inf(1), 0.0
	ds := make([]float64, n+1)
	for i := 0; i <= n; i++ {
		ds[i] = q.Dist(s.Eval(float64(i) / float64(n)))
	}
	// refine around every local minimum of the sampled distance: first resample the bracket finely (two
	// branches of a sharp turn may both lie inside one coarse bracket), then golden-section search
	golden := func(lo, hi float64) (float64, float64) {
		const g = 0.6180339887498949
		for k := 0; k < 50; k++ {
			m1 := hi - g*(hi-lo)
			m2 := lo + g*(hi-lo)
			if q.Dist(s.Eval(m1)) < q.Dist(s.Eval(m2)) {
				hi = m2
			} else {
				lo = m1
			}
		}
		t := (lo + hi) / 2
		return q.Dist(s.Eval(t)), t
	}
	for i := 0; i <= n; i++ {
		if (i > 0 && ds[i-1] < ds[i]) || (i < n && ds[i+1] < ds[i]) {
			continue
		}
		lo := math.Max(0, float64(i-2)/float64(n))
		hi := math.Min(1, float64(i+2)/float64(n))
		const sub = 64
		fs := make([]float64, sub+1)
		for k := 0; k <= sub; k++ {
			fs[k] = q.Dist(s.Eval(lo + (hi-lo)*float64(k)/sub))
		}
		for k := 0; k <= sub; k++ {
			if (k > 0 && fs[k-1] < fs[k]) || (k < sub && fs[k+1] < fs[k]) {
				continue
			}
			a := lo + (hi-lo)*math.Max(0, float64(k-1))/sub
			b := lo + (hi-lo)*math.Min(sub, float64(k+1))/sub
			if d, t := golden(a, b); d < best {
				best, bt = d, t
			}
		}
		if ds[i] < best {
			best, bt = ds[i], float64(i)/float64(n)
		}
	}
	return best, bt
}

// PathDist returns the distance from q to the nearest drawn segment of segs (MoveTo excluded).
func PathDist(segs []Seg, q Pt, n int) float64 {
	best := math.Inf(1)
	for _, s := range segs {
		if s.Cmd == MoveTo {
			continue
		}
		if d, _ := SegDist(s, q, n); d < best {
			best = d
		}
	}
	return best
}
