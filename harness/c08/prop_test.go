package c08

import (
	"math"
	"testing"

	"github.com/tdewolff/canvas"
	"pgregory.net/rapid"

	"verif/harness/gen"
	"verif/harness/oracle"
	"verif/harness/vf"
)

func TestMain(m *testing.M) { vf.Main(m, "C08") }

type Case struct {
	Path gen.PathSpec `json:"path"`
	// equivariance: translation and reflection applied to the *spec*
	Dx   float64 `json:"dx"`
	Dy   float64 `json:"dy"`
	Flip   int     `json:"flip"` // 0 none, 1 x -> -x, 2 y -> -y
}

func genCase(t *rapid.T) Case {
	o := gen.DefaultOpts()
	o.Lo, o.Hi = -10, 10
	o.MaxSub = 2
	o.MaxSeg = 4
	if rapid.IntRange(0, 2).Draw(t, "curvy") > 0 {
		o.Ops = "QCA"
	}
	return Case{
		Path: gen.Path(t, o),
		Dx:   float64(rapid.IntRange(-40, 40).Draw(t, "dx")) / 4,
		Dy:   float64(rapid.IntRange(-40, 40).Draw(t, "dy")) / 4,
		Flip: rapid.IntRange(0, 2).Draw(t, "flip"),
	}
}

// mapSpec applies p -> (sx*x+dx, sy*y+dy) with sx,sy in {1,-1} to a spec. A reflection flips the arc sweep
// flag and negates the rotation.
func mapSpec(ps gen.PathSpec, sx, sy, dx, dy float64) gen.PathSpec {
	var out gen.PathSpec
	for _, c := range ps.Cmds {
		a := append([]float64(nil), c.A...)
		switch c.Op {
		case "M", "L", "Q", "C":
			for i := 0; i+1 < len(a); i += 2 {
				a[i] = sx*a[i] + dx
				a[i+1] = sy*a[i+1] + dy
			}
		case "A":
			if sx*sy < 0 {
				a[2] = -a[2]
				a[4] = 1 - a[4]
			}
			a[5] = sx*a[5] + dx
			a[6] = sy*a[6] + dy
		}
		out.Cmds = append(out.Cmds, gen.Cmd{Op: c.Op, A: a})
	}
	return out
}

func oracleBounds(p *canvas.Path) (oracle.Box, bool, error) {
	segs, err := oracle.Decode(p.Data())
	if err != nil {
		return oracle.Box{}, false, err
	}
	b := oracle.EmptyBox()
	interior := false
	for _, s := range segs {
		sb := oracle.SegBounds(s, 256)
		if s.Cmd == oracle.MoveTo {
			sb = oracle.EmptyBox().Extend(s.End())
		}
		// is a side attained in the interior of a curved segment?
		if s.Curved() {
			ends := oracle.EmptyBox().Extend(s.P0).Extend(s.End())
			tol := 1e-7 * (1 + sb.Size())
			if sb.X0 < ends.X0-tol || sb.X1 > ends.X1+tol || sb.Y0 < ends.Y0-tol || sb.Y1 > ends.Y1+tol {
				interior = true
			}
		}
		b = b.Extend(oracle.Pt{X: sb.X0, Y: sb.Y0}).Extend(oracle.Pt{X: sb.X1, Y: sb.Y1})
	}
	return b, interior, nil
}

func cmpBox(name string, got canvas.Rect, want oracle.Box, tol float64) error {
	if math.Abs(got.X0-want.X0) > tol || math.Abs(got.Y0-want.Y0) > tol || math.Abs(got.X1-want.X1) > tol || math.Abs(got.Y1-want.Y1) > tol {
		return vf.Errorf("%s = (%v,%v)-(%v,%v), oracle (%v,%v)-(%v,%v), tol %g", name, got.X0, got.Y0, got.X1, got.Y1, want.X0, want.Y0, want.X1, want.Y1, tol)
	}
	return nil
}

func checkCase(c Case, r *vf.R) error {
	p := c.Path.Build()
	if p.Empty() {
		return nil
	}
	want, interior, err := oracleBounds(p)
	if err != nil {
		return vf.Errorf("built path is not decodable: %v", err)
	}
	if c.Path.HasOp("A") {
		r.Class("has-arc")
	}
	if c.Path.HasOp("QC") {
		r.Class("has-bezier")
	}
	if r.ClassIf(interior, "side-attained-inside-curve") {
		r.NonTrivial()
	}
	size := want.Size()
	tol := 1e-6*size + 1e-9
	var got, fast canvas.Rect
	if err := vf.Try("Bounds/FastBounds", func() { got = p.Bounds(); fast = p.FastBounds() }); err != nil {
		return err
	}
	if err := cmpBox("Bounds()", got, want, tol); err != nil {
		return err
	}
	ftol := 1e-9 * (1 + size)
	if fast.X0 > got.X0+ftol || fast.Y0 > got.Y0+ftol || fast.X1 < got.X1-ftol || fast.Y1 < got.Y1-ftol {
		return vf.Errorf("FastBounds %v does not contain Bounds %v", fast, got)
	}
	// FastBounds must also contain the oracle's box (it must contain every point of the path)
	if fast.X0 > want.X0+tol || fast.Y0 > want.Y0+tol || fast.X1 < want.X1-tol || fast.Y1 < want.Y1-tol {
		return vf.Errorf("FastBounds %v does not contain the path's true box %+v", fast, want)
	}
	// equivariance under translation / reflection of the input
	sx, sy := 1.0, 1.0
	if c.Flip == 1 {
		sx = -1
	} else if c.Flip == 2 {
		sy = -1
	}
	q := mapSpec(c.Path, sx, sy, c.Dx, c.Dy).Build()
	var gq, fq canvas.Rect
	if err := vf.Try("Bounds/FastBounds of mapped path", func() { gq = q.Bounds(); fq = q.FastBounds() }); err != nil {
		return err
	}
	mapRect := func(b canvas.Rect) oracle.Box {
		x0, x1 := sx*b.X0+c.Dx, sx*b.X1+c.Dx
		y0, y1 := sy*b.Y0+c.Dy, sy*b.Y1+c.Dy
		return oracle.Box{X0: math.Min(x0, x1), Y0: math.Min(y0, y1), X1: math.Max(x0, x1), Y1: math.Max(y0, y1)}
	}
	etol := 1e-7*(size+math.Abs(c.Dx)+math.Abs(c.Dy)) + 1e-9
	if err := cmpBox("Bounds() of translated/reflected path", gq, mapRect(got), etol); err != nil {
		return err
	}
	if err := cmpBox("FastBounds() of translated/reflected path", fq, mapRect(fast), etol); err != nil {
		return err
	}
	return nil
}

func TestBounds(t *testing.T) {
	vf.Run(t, vf.Prop[Case]{Sub: "bounds", Gen: genCase, Check: checkCase, Cases: vf.N(6000, 60000)})
}
