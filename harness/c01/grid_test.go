package c01

import (
	"testing"

	"pgregory.net/rapid"
	"verif/harness/gen"
	"verif/harness/vf"
)

// ---------------- operands on a small integer grid ----------------
//
// Polygons with integer vertices on a 5x5 or 7x7 grid meet each other in every way the sweep has to survive: vertices
// on edges, three edges through one point, collinear overlapping and vertical edges, crossings that fall next to a
// vertical edge. The general generator's lattice (1/4 and 1/8 steps over 0..10) produces such meetings far less often.
// Same oracle and the same finding classes as the bool sub-check.

func genGridOperand(t *rapid.T, g int) gen.PathSpec {
	var ps gen.PathSpec
	for i, n := 0, rapid.IntRange(1, 2).Draw(t, "ncontours"); i < n; i++ {
		nv := rapid.IntRange(3, 5).Draw(t, "nv")
		for k := 0; k < nv; k++ {
			op := "L"
			if k == 0 {
				op = "M"
			}
			ps.Cmds = append(ps.Cmds, gen.Cmd{Op: op, A: []float64{float64(gen.Uniform(t, "gx", 0, g)), float64(gen.Uniform(t, "gy", 0, g))}})
		}
		ps.Cmds = append(ps.Cmds, gen.Cmd{Op: "z"})
	}
	return ps
}

func genGrid(t *rapid.T) Case {
	g := rapid.SampledFrom([]int{4, 6}).Draw(t, "grid")
	c := Case{P: genGridOperand(t, g), Q: genGridOperand(t, g), Sym: rapid.IntRange(0, 2).Draw(t, "sym")}
	for i := 0; i < 30; i++ {
		c.Pts = append(c.Pts, [2]float64{gen.SmoothCoord(t, "sx", -1, 7), gen.SmoothCoord(t, "sy", -1, 7)})
	}
	return c
}

func TestGrid(t *testing.T) {
	vf.Run(t, vf.Prop[Case]{Sub: "grid", Gen: genGrid, Check: checkBool, Cases: vf.N(6000, 100000),
		// rates on the unchanged tree (4 seeds x 24000 cases): F01c 2.5 %, F01d 0.03 %, F01e 0.006 %
		MaxRate: map[string]float64{"F01c": 0.06, "F01d": 0.001, "F01e": 0.0004},
		// measured at six seeds of the quick tier (144000 cases): 3697, 40 and 9 fall-backs
		BaseRate: map[string]float64{"F01c": 0.0257, "F01d": 0.00028, "F01e": 0.000063}})
}
