package c01

import (
	"testing"

	"pgregory.net/rapid"
	"verif/harness/gen"
	"verif/harness/vf"
)

// ---------------- edges shorter than the snap grid, on both sides of the origin ----------------
//
// Integer polygons on -3..3 in which one or two vertices are doubled into a pair of vertices a few 2.5e-9 apart (a quarter
// of the 1e-8 snap grid), so that an edge lies within one or two tolerance squares and its end points sit on or next to the
// ties of the rounding (odd multiples of 5e-9) at negative as well as positive coordinates. The general generator keeps
// its operands in the positive quadrant, where all ways of rounding a tie agree (seed C01-6: two snapping sites that round
// negative ties differently). Same oracle and finding classes as the bool sub-check; failures of inputs with an edge shorter than two grid cells
// fall into the class of finding F01f, whose rate is guarded.

func genHalfGridOperand(t *rapid.T) gen.PathSpec {
	var ps gen.PathSpec
	nv := rapid.IntRange(3, 5).Draw(t, "nv")
	tiny := rapid.IntRange(0, nv-1).Draw(t, "tiny")
	k := 0
	add := func(x, y float64) {
		op := "L"
		if k == 0 {
			op = "M"
		}
		k++
		ps.Cmds = append(ps.Cmds, gen.Cmd{Op: op, A: []float64{x, y}})
	}
	for i := 0; i < nv; i++ {
		x, y := float64(gen.Uniform(t, "gx", -3, 3)), float64(gen.Uniform(t, "gy", -3, 3))
		if i == tiny {
			e := func(l string) float64 { return float64(rapid.IntRange(-4, 4).Draw(t, l)) * 2.5e-9 }
			add(x+e("ax"), y+e("ay"))
			add(x+e("bx"), y+e("by"))
		} else {
			add(x, y)
		}
	}
	ps.Cmds = append(ps.Cmds, gen.Cmd{Op: "z"})
	return ps
}

func genHalfGrid(t *rapid.T) Case {
	c := Case{P: genHalfGridOperand(t), Sym: rapid.IntRange(0, 2).Draw(t, "sym")}
	if rapid.Bool().Draw(t, "qtiny") {
		c.Q = genHalfGridOperand(t)
	} else {
		x0, y0 := float64(gen.Uniform(t, "qx", -3, 2)), float64(gen.Uniform(t, "qy", -3, 2))
		w, h := float64(gen.Uniform(t, "qw", 1, 4)), float64(gen.Uniform(t, "qh", 1, 4))
		c.Q = gen.PathSpec{Cmds: []gen.Cmd{{Op: "M", A: []float64{x0, y0}}, {Op: "L", A: []float64{x0 + w, y0}}, {Op: "L", A: []float64{x0 + w, y0 + h}}, {Op: "L", A: []float64{x0, y0 + h}}, {Op: "z"}}}
	}
	for i := 0; i < 30; i++ {
		c.Pts = append(c.Pts, [2]float64{gen.SmoothCoord(t, "sx", -4, 4), gen.SmoothCoord(t, "sy", -4, 4)})
	}
	return c
}

func TestHalfGrid(t *testing.T) {
	vf.Run(t, vf.Prop[Case]{Sub: "halfgrid", Gen: genHalfGrid, Check: checkBool, Cases: vf.N(6000, 60000),
		// rates on the unchanged tree (4 seeds x 24000 cases): F01c 2.8 %, F01d 0.03 %, F01e 0.27 %, F01f 0.04 %
		// (with seed C01-6 applied F01f rises to 1.6 %, next to panics outside every class)
		MaxRate: map[string]float64{"F01c": 0.06, "F01d": 0.002, "F01e": 0.008, "F01f": 0.002},
		BaseRate: map[string]float64{"F01c": 0.0278, "F01d": 0.00027, "F01e": 0.0027, "F01f": 0.00036}})
}
