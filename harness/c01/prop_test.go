package c01

import (
	"fmt"
	"math"
	"os"
	"sort"
	"strings"
	"testing"
	"time"

	"github.com/tdewolff/canvas"
	"pgregory.net/rapid"

	"verif/harness/bgen"
	"verif/harness/gen"
	"verif/harness/geo"
	"verif/harness/oracle"
	"verif/harness/vf"
)

func TestMain(m *testing.M) { vf.Main(m, "C01") }

type Case struct {
	P      gen.PathSpec `json:"p"`
	Q      gen.PathSpec `json:"q"`
	Curved bool         `json:"curved"`
	Pts    [][2]float64 `json:"points"`
	Sym    int          `json:"symmetry"` // 0 translate by (3,-2), 1 mirror x, 2 swap axes
}

func genCase(t *rapid.T) Case {
	curved := rapid.IntRange(0, 3).Draw(t, "curved") == 0
	smooth := rapid.IntRange(0, 5).Draw(t, "smooth") == 0
	p, q := bgen.Pair(t, curved, smooth)
	c := Case{P: p, Q: q, Curved: curved, Sym: rapid.IntRange(0, 2).Draw(t, "sym")}
	for i := 0; i < 30; i++ {
		c.Pts = append(c.Pts, [2]float64{gen.SmoothCoord(t, "sx", -1, 11), gen.SmoothCoord(t, "sy", -1, 11)})
	}
	return c
}

var opNames = []string{"And", "Or", "Xor", "Not", "DivideBy"}

func apply(op int, p, q *canvas.Path) *canvas.Path {
	switch op {
	case 0:
		return p.And(q)
	case 1:
		return p.Or(q)
	case 2:
		return p.Xor(q)
	case 3:
		return p.Not(q)
	default:
		return p.DivideBy(q)
	}
}

func applyPaths(op int, p, q *canvas.Path) *canvas.Path {
	ps, qs := canvas.Paths(p.Split()), canvas.Paths(q.Split())
	switch op {
	case 0:
		return ps.And(qs)
	case 1:
		return ps.Or(qs)
	case 2:
		return ps.Xor(qs)
	case 3:
		return ps.Not(qs)
	default:
		return ps.DivideBy(qs)
	}
}

func expect(op int, a, b bool) bool {
	switch op {
	case 0:
		return a && b
	case 1:
		return a || b
	case 2:
		return a != b
	case 3:
		return a && !b
	default:
		return a
	}
}

type operand struct {
	path  *canvas.Path
	segs  []oracle.Seg
	polys []oracle.Poly
}

func prep(ps gen.PathSpec) (operand, error) {
	p := ps.Build()
	segs, err := oracle.Decode(p.Data())
	if err != nil {
		return operand{}, vf.Errorf("operand not decodable: %v", err)
	}
	return operand{path: p, segs: segs, polys: oracle.Sample(segs, 96)}, nil
}

// samplePoints: the drawn points plus points next to vertices and edge midpoints of both operands.
func samplePoints(c Case, P, Q operand) []oracle.Pt {
	var pts []oracle.Pt
	for _, q := range c.Pts {
		pts = append(pts, oracle.Pt{X: q[0], Y: q[1]})
	}
	for _, o := range []operand{P, Q} {
		for _, s := range o.segs {
			if s.Cmd == oracle.MoveTo {
				continue
			}
			v := s.End()
			for _, d := range [][2]float64{{0.013, 0.007}, {-0.011, 0.009}, {0.006, -0.012}, {-0.008, -0.01}} {
				pts = append(pts, oracle.Pt{X: v.X + d[0], Y: v.Y + d[1]})
			}
			a, b := s.Eval(0.5), s.Eval(0.5001)
			n := oracle.Pt{X: -(b.Y - a.Y), Y: b.X - a.X}
			if l := n.Len(); l > 0 {
				n = n.Mul(0.011 / l)
				pts = append(pts, a.Add(n), a.Sub(n))
			}
		}
	}
	if len(pts) > 160 {
		pts = pts[:160]
	}
	return pts
}

func region(polys []oracle.Poly, q oracle.Pt) (bool, float64) {
	w, d := oracle.Winding(polys, q)
	return w != 0, d
}

func touches(P, Q operand) bool {
	return oracle.BoundaryTouch(P.polys, Q.polys, 1e-9)
}

var survey = os.Getenv("VERIF_SURVEY") == "1"

func checkBool(c Case, r *vf.R) error {
	err := checkBool1(c, r)
	if err != nil && !survey {
		// known finding classes, decided on the operands alone
		sp, mult := degeneracy(c.P, c.Q)
		msg := err.Error()
		div := strings.Contains(msg, "DivideBy")
		if div {
			// F01c: DivideBy panics ("next node for result polygon is nil") or returns a wrong region for
			// about 5% of random pairs, in every input class: all DivideBy failures are attributed to it
			if r.Excluded("F01c", true) {
				return nil
			}
		} else if r.Excluded("F01d", sp || mult >= 2) {
			// F01d: zero-area spikes / coincident contours: And, Or, Xor, Not fail for about 0.15% of pairs
			return nil
		} else {
			P, _ := prep(c.P)
			Q, _ := prep(c.Q)
			// F01e: an operand with self-intersecting or mutually overlapping contours: about 0.02% of such pairs
			// (first seen with both operands self-intersecting; the small integer grid shows one is enough:
			// Q.Or(P) of P=M2 2L4 1L3 1L0 2z, Q=M2 3L3 0L2 0L3 3zM3 4L0 0L3 3L2 0z gets an edge from (4,1) to (3,3))
			if r.Excluded("F01e", oracle.SelfIntersects(P.polys, 1e-9) || oracle.SelfIntersects(Q.polys, 1e-9)) {
				return nil
			}
			// F01f: an operand with an edge shorter than two cells of the 1e-8 snap grid (a needle that collapses when snapped):
			// P.And(Q) of P=M-2 -2L-2.00000001 -2.00000001L0 3z, Q=M-2 -3L-2 1L-1 1L-1 -3z panics "next node for result polygon is nil"
			// ... or a vertex at a distance between 0 and 2e-8 from an edge of either operand that it is not an end point of
			// (Q.And(P) with P=M2 -3L-0.99999999 1L-1 3z, Q=M-1 2L3 2L3 3L-1 3z): the same sub-grid proximity
			if r.Excluded("F01f", tinyEdge(c.P) || tinyEdge(c.Q) || nearTouch(c.P, c.Q)) {
				return nil
			}
			// curved operands are flattened first: the open findings of Flatten (C03) apply to their segments
			for _, o := range []operand{P, Q} {
				for _, sg := range o.segs {
					if _, f := geo.FlattenBound(sg, canvas.Tolerance); f != "" && r.Excluded(f, true) {
						return nil
					}
				}
			}
		}
	}
	if err != nil && survey {
		msg := err.Error()
		kind := "other"
		for _, k := range []string{"panic in And", "panic in Or", "panic in Xor", "panic in Not", "panic in DivideBy", "panic in Settle", "panic in Paths", "P.And(Q): point", "P.Or(Q): point", "P.Xor(Q): point", "P.Not(Q): point", "P.DivideBy(Q): point", "inclusion-exclusion", "|Xor|", "|Not|", "|DivideBy|", "not commutative", "not invariant", "disagree", "modified", "hang"} {
			if strings.Contains(msg, k) {
				kind = k
				break
			}
		}
		if strings.Contains(msg, "panic") {
			i := strings.Index(msg, "panic in")
			j := strings.Index(msg[i:], "\n")
			if j < 0 {
				j = len(msg) - i
			}
			kind = msg[i : i+j]
			if len(kind) > 90 {
				kind = kind[:90]
			}
		}
		sp, mult := degeneracy(c.P, c.Q)
		Pp, _ := prep(c.P)
		Qp, _ := prep(c.Q)
		kind += fmt.Sprintf(" [spike=%v mult=%d selfP=%v selfQ=%v touch=%v]", sp, mult, oracle.SelfIntersects(Pp.polys, 1e-9), oracle.SelfIntersects(Qp.polys, 1e-9), touches(Pp, Qp))
		r.Class("survey:" + kind)
		if ex := os.Getenv("VERIF_SURVEY_EXCEPT"); ex != "" && (strings.Contains(msg, ex) || strings.Contains(kind, ex)) {
			return err
		}
		return nil
	}
	return err
}

// nearTouch: whether some vertex of the (flat parts of the) operands lies at a distance between 0 and 2e-8 from an edge of
// either operand.
func nearTouch(p, q gen.PathSpec) bool {
	type seg struct{ a, b [2]float64 }
	var segs []seg
	var pts [][2]float64
	for _, ps := range []gen.PathSpec{p, q} {
		var first, prev [2]float64
		open := false
		for _, c := range ps.Cmds {
			switch c.Op {
			case "M":
				first = [2]float64{c.A[0], c.A[1]}
				prev, open = first, true
				pts = append(pts, first)
			case "z":
				if open && prev != first {
					segs = append(segs, seg{prev, first})
				}
				open = false
			default:
				n := len(c.A)
				cur := [2]float64{c.A[n-2], c.A[n-1]}
				if c.Op == "L" && cur != prev {
					segs = append(segs, seg{prev, cur})
				}
				pts = append(pts, cur)
				prev = cur
			}
		}
	}
	for _, v := range pts {
		for _, s := range segs {
			dx, dy := s.b[0]-s.a[0], s.b[1]-s.a[1]
			t := ((v[0]-s.a[0])*dx + (v[1]-s.a[1])*dy) / (dx*dx + dy*dy)
			t = math.Max(0, math.Min(1, t))
			d := math.Hypot(v[0]-(s.a[0]+t*dx), v[1]-(s.a[1]+t*dy))
			if 0 < d && d < 2e-8 {
				return true
			}
		}
	}
	return false
}

// tinyEdge: whether a flat contour has an edge (the closing one included) of a length between 0 and 2e-8.
func tinyEdge(ps gen.PathSpec) bool {
	var first, prev []float64
	short := func(a, b []float64) bool {
		d := math.Hypot(a[0]-b[0], a[1]-b[1])
		return 0 < d && d < 2e-8
	}
	for _, c := range ps.Cmds {
		switch c.Op {
		case "M":
			first, prev = c.A, c.A
		case "L":
			if prev != nil && short(prev, c.A) {
				return true
			}
			prev = c.A
		case "z":
			if prev != nil && first != nil && short(prev, first) {
				return true
			}
		default:
			prev = c.A[len(c.A)-2:]
		}
	}
	return false
}

// degeneracy: whether some contour is a two-vertex spike, and the largest number of contours (over both
// operands together) with the same vertex set.
func degeneracy(p, q gen.PathSpec) (bool, int) {
	spike := false
	count := map[string]int{}
	for _, ps := range []gen.PathSpec{p, q} {
		var cur []float64
		flat := true
		for _, c := range ps.Cmds {
			switch c.Op {
			case "M":
				cur = append([]float64(nil), c.A...)
				flat = true
			case "z":
				if flat && len(cur) <= 4 {
					spike = true
				}
				if flat && foldsBack(cur) {
					spike = true
				}
				type pt struct{ x, y float64 }
				var pts []pt
				for i := 0; i+1 < len(cur); i += 2 {
					pts = append(pts, pt{cur[i], cur[i+1]})
				}
				sort.Slice(pts, func(i, j int) bool { return pts[i].x < pts[j].x || pts[i].x == pts[j].x && pts[i].y < pts[j].y })
				count[fmt.Sprint(pts)]++
				cur = nil
			default:
				if c.Op != "L" {
					flat = false
				}
				cur = append(cur, c.A...)
			}
		}
	}
	m := 0
	for _, v := range count {
		if v > m {
			m = v
		}
	}
	return spike, m
}

// foldsBack: two edges of the closed polygon with the given vertex coordinates are collinear and overlap in more than
// a point (the contour runs back over itself: a zero-area spike attached to it).
func foldsBack(xy []float64) bool {
	n := len(xy) / 2
	pt := func(i int) oracle.Pt { i %= n; return oracle.Pt{X: xy[2*i], Y: xy[2*i+1]} }
	for i := 0; i < n; i++ {
		a, b := pt(i), pt(i+1)
		if a == b {
			continue
		}
		for j := i + 1; j < n; j++ {
			c, d := pt(j), pt(j+1)
			if c == d {
				continue
			}
			ab := b.Sub(a)
			if ab.Cross(c.Sub(a)) != 0 || ab.Cross(d.Sub(a)) != 0 {
				continue
			}
			// collinear: overlap of the parameter ranges along ab
			l2 := ab.Dot(ab)
			t0, t1 := ab.Dot(c.Sub(a))/l2, ab.Dot(d.Sub(a))/l2
			if t0 > t1 {
				t0, t1 = t1, t0
			}
			if math.Min(t1, 1)-math.Max(t0, 0) > 1e-12 {
				return true
			}
		}
	}
	return false
}

// degenerateOperand: the operand has a zero-area contour of two vertices (spike) or two contours with the
// same vertex list (coincident contours, same or opposite orientation).
func degenerateOperand(ps gen.PathSpec) bool {
	var contours [][]float64
	var cur []float64
	flat := true
	for _, c := range ps.Cmds {
		switch c.Op {
		case "M":
			cur = append([]float64(nil), c.A...)
			flat = true
		case "z":
			if flat && len(cur) <= 4 {
				return true
			}
			contours = append(contours, cur)
			cur = nil
		default:
			if c.Op != "L" {
				flat = false
			}
			cur = append(cur, c.A...)
		}
	}
	key := func(v []float64) string {
		// orientation and start independent key: sorted coordinate pairs
		type pt struct{ x, y float64 }
		var ps []pt
		for i := 0; i+1 < len(v); i += 2 {
			ps = append(ps, pt{v[i], v[i+1]})
		}
		sort.Slice(ps, func(i, j int) bool { return ps[i].x < ps[j].x || ps[i].x == ps[j].x && ps[i].y < ps[j].y })
		return fmt.Sprint(ps)
	}
	seen := map[string]bool{}
	for _, c := range contours {
		k := key(c)
		if seen[k] {
			return true
		}
		seen[k] = true
	}
	return false
}

func checkBool1(c Case, r *vf.R) error {
	P, err := prep(c.P)
	if err != nil {
		return err
	}
	Q, err := prep(c.Q)
	if err != nil {
		return err
	}
	if P.path.Empty() || Q.path.Empty() {
		return nil
	}
	pd, qd := append([]float64(nil), P.path.Data()...), append([]float64(nil), Q.path.Data()...)
	// guard band: snap grid for flat operands, plus the flattening tolerance of curved ones
	// (the bounds property C03 enforces for Flatten, per segment; flat operands keep 1e-6)
	delta := 1e-6
	for _, o := range []operand{P, Q} {
		for _, sg := range o.segs {
			if b, _ := geo.FlattenBound(sg, canvas.Tolerance); b+1e-6 > delta {
				delta = b + 1e-6
			}
		}
	}
	if touches(P, Q) {
		r.NonTrivial()
	}
	r.ClassIf(c.Curved, "curved")
	pts := samplePoints(c, P, Q)
	results := make([]*canvas.Path, 5)
	for op := 0; op < 5; op++ {
		var R *canvas.Path
		perr := guard(opNames[op], func() { R = apply(op, P.path, Q.path) })
		if perr != nil {
			return vf.Errorf("P.%s(Q) with P=%v Q=%v: %v", opNames[op], P.path, Q.path, perr)
		}
		for i, v := range P.path.Data() {
			if v != pd[i] {
				return vf.Errorf("%s modified P", opNames[op])
			}
		}
		for i, v := range Q.path.Data() {
			if v != qd[i] {
				return vf.Errorf("%s modified Q", opNames[op])
			}
		}
		results[op] = R
		rsegs, derr := oracle.Decode(R.Data())
		if derr != nil {
			return vf.Errorf("%s: result not decodable: %v", opNames[op], derr)
		}
		rpolys := oracle.Sample(rsegs, 1)
		for _, q := range pts {
			inP, dP := region(P.polys, q)
			inQ, dQ := region(Q.polys, q)
			if dP < delta || dQ < delta {
				continue
			}
			got, _ := region(rpolys, q)
			if want := expect(op, inP, inQ); got != want {
				return vf.Errorf("P.%s(Q): point %v (in P: %v, in Q: %v, %g / %g from their boundaries) is filled=%v in the result %v, expected %v\n P=%v\n Q=%v", opNames[op], q, inP, inQ, dP, dQ, got, R, want, P.path, Q.path)
			}
		}
	}
	// Paths.X agrees with Path.X (same region)
	for op := 0; op < 5; op++ {
		var R2 *canvas.Path
		if perr := guard("Paths."+opNames[op], func() { R2 = applyPaths(op, P.path, Q.path) }); perr != nil {
			return vf.Errorf("Paths.%s with P=%v Q=%v: %v", opNames[op], P.path, Q.path, perr)
		}
		s2, derr := oracle.Decode(R2.Data())
		if derr != nil {
			return vf.Errorf("Paths.%s: result not decodable: %v", opNames[op], derr)
		}
		s1, _ := oracle.Decode(results[op].Data())
		a, b := oracle.Sample(s1, 1), oracle.Sample(s2, 1)
		for _, q := range pts {
			_, dP := region(P.polys, q)
			_, dQ := region(Q.polys, q)
			if dP < delta || dQ < delta {
				continue
			}
			x, _ := region(a, q)
			y, _ := region(b, q)
			if x != y {
				return vf.Errorf("Paths.%s and Path.%s disagree at %v (P=%v Q=%v)", opNames[op], opNames[op], q, P.path, Q.path)
			}
		}
	}
	// algebraic laws on areas of the (canonical) results: |A and B| + |A or B| = |A| + |B|, Xor = Or - And, Not = A - And
	area := func(p *canvas.Path) float64 {
		s, _ := oracle.Decode(p.Data())
		return oracle.Area(oracle.Sample(s, 1))
	}
	var sa, sb *canvas.Path
	if perr := guard("Settle", func() { sa, sb = P.path.Settle(canvas.NonZero), Q.path.Settle(canvas.NonZero) }); perr != nil {
		return vf.Errorf("Settle of an operand: %v", perr)
	}
	aA, aB := area(sa), area(sb)
	aAnd, aOr, aXor, aNot, aDiv := area(results[0]), area(results[1]), area(results[2]), area(results[3]), area(results[4])
	per := oracle.Length(P.polys) + oracle.Length(Q.polys)
	atol := per*delta*4 + 1e-9
	if c.Curved {
		atol = per * math.Max(canvas.Tolerance*3, delta)
	}
	if math.Abs(aAnd+aOr-aA-aB) > atol {
		return vf.Errorf("inclusion-exclusion: |And| %v + |Or| %v != |P| %v + |Q| %v (tolerance %g) P=%v Q=%v", aAnd, aOr, aA, aB, atol, P.path, Q.path)
	}
	if math.Abs(aXor-(aOr-aAnd)) > atol {
		return vf.Errorf("|Xor| %v != |Or| %v - |And| %v (P=%v Q=%v)", aXor, aOr, aAnd, P.path, Q.path)
	}
	if math.Abs(aNot-(aA-aAnd)) > atol {
		return vf.Errorf("|Not| %v != |P| %v - |And| %v (P=%v Q=%v)", aNot, aA, aAnd, P.path, Q.path)
	}
	if math.Abs(aDiv-aA) > atol {
		return vf.Errorf("|DivideBy| %v != |P| %v (P=%v Q=%v)", aDiv, aA, P.path, Q.path)
	}
	// commutativity and symmetry invariance, judged at the sample points
	sym := func(p oracle.Pt) oracle.Pt {
		switch c.Sym {
		case 0:
			return oracle.Pt{X: p.X + 3, Y: p.Y - 2}
		case 1:
			return oracle.Pt{X: -p.X, Y: p.Y}
		default:
			return oracle.Pt{X: p.Y, Y: p.X}
		}
	}
	symPath := func(ps gen.PathSpec) *canvas.Path {
		var m canvas.Matrix
		switch c.Sym {
		case 0:
			m = canvas.Identity.Translate(3, -2)
		case 1:
			m = canvas.Identity.ReflectX()
		default:
			m = canvas.Matrix{{0, 1, 0}, {1, 0, 0}}
		}
		return ps.Build().Transform(m)
	}
	for op := 0; op < 3; op++ {
		var Rc, Rs *canvas.Path
		if perr := guard("commuted/symmetric "+opNames[op], func() {
			Rc = apply(op, Q.path, P.path)
			Rs = apply(op, symPath(c.P), symPath(c.Q))
		}); perr != nil {
			return vf.Errorf("Q.%s(P) or symmetric image with P=%v Q=%v: %v", opNames[op], P.path, Q.path, perr)
		}
		s0, _ := oracle.Decode(results[op].Data())
		s1, e1 := oracle.Decode(Rc.Data())
		s2, e2 := oracle.Decode(Rs.Data())
		if e1 != nil || e2 != nil {
			return vf.Errorf("result not decodable: %v %v", e1, e2)
		}
		p0, p1, p2 := oracle.Sample(s0, 1), oracle.Sample(s1, 1), oracle.Sample(s2, 1)
		for _, q := range pts {
			_, dP := region(P.polys, q)
			_, dQ := region(Q.polys, q)
			if dP < delta || dQ < delta {
				continue
			}
			x, _ := region(p0, q)
			if y, _ := region(p1, q); x != y {
				return vf.Errorf("%s is not commutative at %v (P=%v Q=%v)", opNames[op], q, P.path, Q.path)
			}
			if z, _ := region(p2, sym(q)); x != z {
				return vf.Errorf("%s is not invariant under symmetry %d of the grid at %v (P=%v Q=%v)", opNames[op], c.Sym, q, P.path, Q.path)
			}
		}
	}
	return nil
}

func TestBool(t *testing.T) {
	vf.Run(t, vf.Prop[Case]{Sub: "bool", Gen: genCase, Check: checkBool, Cases: vf.N(4000, 40000),
		MaxRate: map[string]float64{"F01c": 0.15, "F01d": 0.012, "F01e": 0.003},
		// measured at six seeds of the quick tier (96000 cases): 4067, 417 and 20 fall-backs
		BaseRate: map[string]float64{"F01c": 0.0424, "F01d": 0.00434, "F01e": 0.00021}})
}

var _ = fmt.Sprint

// guard runs a library call: a panic becomes an error (vf.Try) and so does a call that does not return within a minute
// (the call is left running in its goroutine; whether that is a violation or falls into a recorded finding class is
// decided from the input like for any other failure).
func guard(name string, f func()) error {
	var herr error
	if perr := vf.Try(name, func() { herr = vf.WatchdogErr(60*time.Second, f) }); perr != nil {
		return perr
	}
	if herr != nil {
		return vf.Errorf("%s: %w", name, herr)
	}
	return nil
}
