package c06

import (
	"math"
	"testing"

	"github.com/tdewolff/canvas"
	"pgregory.net/rapid"

	"verif/harness/gen"
	"verif/harness/oracle"
	"verif/harness/vf"
)

func TestMain(m *testing.M) { vf.Main(m, "C06") }

// ---------------- Windings / Crossings / Contains ----------------

type WCase struct {
	Path   gen.PathSpec `json:"path"`
	Q      [][2]float64 `json:"points"`
	Kind   []string     `json:"kinds"`
	Family string       `json:"family,omitempty"` // constructed families (shapes_test.go): the class of F06c does not apply
}

func genW(t *rapid.T) WCase {
	o := gen.DefaultOpts()
	o.Lo, o.Hi = -10, 10
	o.MaxSub = 3
	o.MinSeg, o.MaxSeg = 2, 5
	o.Closed = 1
	if rapid.IntRange(0, 3).Draw(t, "open") == 0 {
		o.Closed = 0
	}
	if rapid.IntRange(0, 2).Draw(t, "flat") == 0 {
		o.Ops = "L"
	}
	c := WCase{Path: gen.Path(t, o)}
	// collect special y values: vertex ys
	var vs [][2]float64
	for _, cmd := range c.Path.Cmds {
		if n := len(cmd.A); n >= 2 {
			vs = append(vs, [2]float64{cmd.A[n-2], cmd.A[n-1]})
		}
	}
	nq := rapid.IntRange(6, 14).Draw(t, "nq")
	for i := 0; i < nq; i++ {
		kind := rapid.IntRange(0, 4).Draw(t, "qkind")
		var q [2]float64
		name := "uniform"
		switch {
		case kind == 0 || len(vs) == 0:
			q = [2]float64{gen.SmoothCoord(t, "qx", -12, 12), gen.SmoothCoord(t, "qy", -12, 12)}
		case kind == 1: // level with a vertex, to its left (the ray passes through the vertex)
			v := vs[rapid.IntRange(0, len(vs)-1).Draw(t, "vi")]
			q = [2]float64{v[0] - float64(gen.Uniform(t, "dx", 1, 80))/8, v[1]}
			name = "level-with-vertex"
		case kind == 2: // just next to a vertex
			v := vs[rapid.IntRange(0, len(vs)-1).Draw(t, "vi")]
			q = [2]float64{v[0] + float64(gen.Uniform(t, "ex", -3, 3))/64, v[1] + float64(gen.Uniform(t, "ey", -3, 3))/64}
			name = "near-vertex"
		case kind == 3: // lattice point (often on horizontal/vertical edge lines)
			q = [2]float64{gen.LatticeCoord(t, "qx", -11, 11), gen.LatticeCoord(t, "qy", -11, 11)}
			name = "lattice"
		default: // exactly on a vertex
			v := vs[rapid.IntRange(0, len(vs)-1).Draw(t, "vi")]
			q = v
			name = "on-vertex"
		}
		c.Q = append(c.Q, q)
		c.Kind = append(c.Kind, name)
	}
	return c
}

var rules = []canvas.FillRule{canvas.NonZero, canvas.EvenOdd, canvas.Positive, canvas.Negative}

func fills(rule canvas.FillRule, w int) bool {
	switch rule {
	case canvas.NonZero:
		return w != 0
	case canvas.EvenOdd:
		return w%2 != 0
	case canvas.Positive:
		return w > 0
	default:
		return w < 0
	}
}

// nearLevel: within 1e-5 (the intersection routines work with absolute tolerances around 1e-10..1e-8 on
// parameters, which translates to larger distances in y for long curves)
func nearLevel(ys []float64, y float64) bool {
	for _, v := range ys {
		if math.Abs(v-y) < 1e-5 {
			return true
		}
	}
	return false
}

func levelWith(ys []float64, y float64) bool {
	for _, v := range ys {
		if math.Abs(v-y) < 1e-9 {
			return true
		}
	}
	return false
}

// rayXs returns the x positions (> q.X - eps) where segment s meets the horizontal line through q.
func rayXs(s oracle.Seg, q oracle.Pt) []float64 {
	var xs []float64
	const N = 96
	n := 1
	if s.Curved() {
		n = N
	}
	prev := s.Eval(0)
	if math.Abs(prev.Y-q.Y) < 1e-9 {
		xs = append(xs, prev.X)
	}
	for i := 1; i <= n; i++ {
		cur := s.Eval(float64(i) / float64(n))
		if math.Abs(cur.Y-q.Y) < 1e-9 {
			xs = append(xs, cur.X)
		} else if (prev.Y-q.Y)*(cur.Y-q.Y) < 0 && math.Abs(prev.Y-q.Y) >= 1e-9 {
			lo, hi := float64(i-1)/float64(n), float64(i)/float64(n)
			for k := 0; k < 60; k++ {
				m := (lo + hi) / 2
				if (s.Eval(m).Y-q.Y)*(prev.Y-q.Y) > 0 {
					lo = m
				} else {
					hi = m
				}
			}
			xs = append(xs, s.Eval((lo+hi)/2).X)
		}
		prev = cur
	}
	return xs
}

// coincident reports whether the ray from q to the right meets three or more segment points at one
// position (a vertex through which another segment passes, overlapping segments, self-intersections on
// the ray), or runs within 1e-8 of a line segment that is nearly but not exactly horizontal.
func coincident(segs []oracle.Seg, q oracle.Pt) bool {
	var all []float64
	for _, s := range segs {
		if s.Cmd == oracle.MoveTo {
			continue
		}
		if !s.Curved() {
			y0, y1 := s.P0.Y, s.End().Y
			if y0 != y1 && math.Abs(y0-q.Y) < 1e-8 && math.Abs(y1-q.Y) < 1e-8 {
				return true
			}
		}
		for _, x := range rayXs(s, q) {
			if x >= q.X-1e-9 {
				all = append(all, x)
			}
		}
	}
	for _, s := range segs {
		// a vertex almost, but not exactly, level with the ray (within the library's Epsilon-sized tolerances)
		if dy := math.Abs(s.End().Y - q.Y); dy > 0 && dy < 1e-8 && s.End().X >= q.X {
			return true
		}
	}
	for i := range all {
		n := 0
		for j := range all {
			if math.Abs(all[i]-all[j]) < 1e-7 {
				n++
			}
		}
		if n >= 3 {
			return true
		}
	}
	return false
}

// coincident2: two or more ray hits at one position (for Crossings, which counts each of them).
func coincident2(segs []oracle.Seg, q oracle.Pt) bool {
	var all []float64
	for _, s := range segs {
		if s.Cmd == oracle.MoveTo {
			continue
		}
		for _, x := range rayXs(s, q) {
			if x >= q.X-1e-9 {
				all = append(all, x)
			}
		}
	}
	for i := range all {
		for j := i + 1; j < len(all); j++ {
			if math.Abs(all[i]-all[j]) < 1e-7 {
				return true
			}
		}
	}
	return false
}

// nearlyQuadratic: a cubic whose cubic coefficient in y is tiny but not zero relative to the others; the
// closed-form cubic solver then loses roots (finding F06f).
func nearlyQuadratic(segs []oracle.Seg) bool {
	for _, s := range segs {
		if s.Cmd != oracle.CubeTo {
			continue
		}
		p0, p1, p2, p3 := s.P0.Y, s.Args[1], s.Args[3], s.Args[5]
		a := p3 - p0 + 3*p1 - 3*p2
		b := 3*p0 - 6*p1 + 3*p2
		c := 3*p1 - 3*p0
		if m := math.Max(math.Abs(b), math.Abs(c)); math.Abs(a) > 1e-12*m && math.Abs(a) < 1e-3*m {
			return true
		}
	}
	return false
}

func checkW(c WCase, r *vf.R) error {
	p := c.Path.Build()
	if p.Empty() {
		return nil
	}
	segs, err := oracle.Decode(p.Data())
	if err != nil {
		return vf.Errorf("not decodable: %v", err)
	}
	// an arc whose end points differ by less than the library's Epsilon (1e-10 relative to nothing) is, as SVG
	// prescribes for identical end points, dropped by the library while the geometric reading is a full ellipse:
	// the meaning of such an input flips at the tolerance and is not part of the statement
	for _, s := range segs {
		if s.Cmd == oracle.ArcTo && s.P0 != s.End() && s.P0.Dist(s.End()) < 1e-8 {
			r.Class("arc-end-points-within-epsilon(discarded)")
			return nil
		}
	}
	const N = 400
	polys := oracle.Sample(segs, N)
	size := oracle.Bounds(polys).Size()
	hasOpen := false
	for _, pl := range polys {
		if !pl.Closed {
			hasOpen = true
		}
	}
	r.ClassIf(hasOpen, "has-open-subpath")
	// sampling error of the oracle polyline
	sag := 0.0
	for _, s := range segs {
		if s.Curved() {
			for i := 0; i < N; i += 5 {
				a, b := s.Eval(float64(i)/N), s.Eval(float64(i+1)/N)
				sag = math.Max(sag, oracle.DistSeg(s.Eval((float64(i)+0.5)/N), a, b))
			}
		}
	}
	guard := 1e-6*size + 4*sag
	hasCurve := false
	for _, s := range segs {
		if s.Curved() {
			hasCurve = true
		}
	}
	// special y values for the non-triviality rule: vertices, horizontal edges, curve extrema
	var ys []float64
	for _, s := range segs {
		ys = append(ys, s.End().Y)
		if s.Curved() {
			b := oracle.SegBounds(s, 64)
			ys = append(ys, b.Y0, b.Y1)
			// local extremes of y inside the segment
			const M = 256
			for i := 1; i < M; i++ {
				y0, y1, y2 := s.Eval(float64(i-1)/M).Y, s.Eval(float64(i)/M).Y, s.Eval(float64(i+1)/M).Y
				if (y1-y0)*(y2-y1) <= 0 && (y1 != y0 || y2 != y1) {
					// vertex of the parabola through the three samples
					den := y0 - 2*y1 + y2
					if den != 0 {
						d := 0.5 * (y0 - y2) / den
						ys = append(ys, y1-0.25*(y0-y2)*d)
					} else {
						ys = append(ys, y1)
					}
				}
			}
		}
	}
	for qi, qq := range c.Q {
		q := oracle.Pt{X: qq[0], Y: qq[1]}
		w, dist := oracle.Winding(polys, q)
		cr := oracle.Crossings(polys, q)
		var gw, gc int
		var bw, bc bool
		cont := make([]bool, len(rules))
		if err := vf.Try("Windings/Crossings/Contains", func() {
			gw, bw = p.Windings(q.X, q.Y)
			gc, bc = p.Crossings(q.X, q.Y)
			for i, rule := range rules {
				cont[i] = p.Contains(q.X, q.Y, rule)
			}
		}); err != nil {
			if r.Excluded("F06a", hasOpen) {
				continue
			}
			if r.Excluded("F06c", c.Family == "" && hasCurve && nearLevel(ys, q.Y)) {
				continue
			}
			if r.Excluded("F06d", coincident(segs, q)) {
				continue
			}
			return vf.Errorf("point %v (%s): %v", q, c.Kind[qi], err)
		}
		fragile := levelWith(ys, q.Y)
		if dist > guard {
			r.Class("query:" + c.Kind[qi])
			if r.ClassIf(fragile, "ray-through-vertex/extremum/horizontal") {
				r.NonTrivial()
			}
			if hasOpen && (gw != w || gc != cr || bw) && r.Excluded("F06a", true) {
				continue
			}
			if c.Family == "" && hasCurve && nearLevel(ys, q.Y) && (gw != w || bw) && r.Excluded("F06c", true) {
				continue
			}
			if (gw != w || bw) && r.Excluded("F06d", coincident(segs, q)) {
				continue
			}
			if (gw != w || bw) && r.Excluded("F06f", nearlyQuadratic(segs)) {
				continue
			}
			if bw || bc {
				return vf.Errorf("point %v (%s) is %g from the boundary but reported as boundary (Windings boundary=%v, Crossings boundary=%v)", q, c.Kind[qi], dist, bw, bc)
			}
			if gw != w {
				return vf.Errorf("Windings(%v) (%s) = %d, winding number is %d (distance to boundary %g)", q, c.Kind[qi], gw, w, dist)
			}
			if gc != cr && !r.Excluded("F06b", nearLevel(ys, q.Y)) && !r.Excluded("F06d", coincident2(segs, q)) && !r.Excluded("F06f", nearlyQuadratic(segs)) {
				return vf.Errorf("Crossings(%v) (%s) = %d, the ray crosses the boundary %d times (distance to boundary %g)", q, c.Kind[qi], gc, cr, dist)
			}
			for i, rule := range rules {
				if cont[i] != fills(rule, w) {
					return vf.Errorf("Contains(%v, %v) = %v, winding number is %d", q, rule, cont[i], w)
				}
			}
		} else if c.Kind[qi] == "on-vertex" && !hasOpen {
			r.Class("query:on-boundary")
			// points exactly on a vertex of a closed subpath are on the boundary
			on := false
			for _, s := range segs {
				if s.Cmd != oracle.MoveTo && (s.End() == q || s.P0 == q) {
					on = true
				}
			}
			if on && (!bw || !bc) && r.Excluded("F06c", hasCurve) {
				continue
			}
			if on && !bw {
				return vf.Errorf("point %v lies on a vertex of the path but Windings does not report boundary", q)
			}
			if on && !bc {
				return vf.Errorf("point %v lies on a vertex of the path but Crossings does not report boundary", q)
			}
		}
	}
	return nil
}

func TestWindings(t *testing.T) {
	vf.Run(t, vf.Prop[WCase]{Sub: "windings", Gen: genW, Check: checkW, Cases: vf.N(2500, 50000)})
}

// ---------------- CCW and Filling on simple contours ----------------

// Contour is a star-shaped contour around (Cx,Cy): radii at increasing angles, edge kinds, orientation.
type Contour struct {
	Cx, Cy float64   `json:"-"`
	C      [2]float64 `json:"c"`
	R      []float64 `json:"r"`
	Kind   []int     `json:"kind"` // 0 line, 1 quad bulging outward, 2 circular arc
	CW     bool      `json:"cw"`
	Scale  float64   `json:"scale"`
	Rot    float64   `json:"rot"`
}

func genContour(t *rapid.T, cx, cy, scale float64) Contour {
	n := rapid.IntRange(3, 8).Draw(t, "nv")
	c := Contour{C: [2]float64{cx, cy}, Scale: scale, CW: rapid.Bool().Draw(t, "cw"), Rot: float64(gen.Uniform(t, "rot", 0, 359))}
	for i := 0; i < n; i++ {
		c.R = append(c.R, float64(gen.Uniform(t, "r", 5, 10))/10)
		c.Kind = append(c.Kind, rapid.IntRange(0, 2).Draw(t, "ek"))
	}
	return c
}

func (c Contour) spec() gen.PathSpec {
	n := len(c.R)
	pts := make([]oracle.Pt, n)
	for i := range pts {
		a := (c.Rot + 360*float64(i)/float64(n)) * math.Pi / 180
		pts[i] = oracle.Pt{X: c.C[0] + c.Scale*c.R[i]*math.Cos(a), Y: c.C[1] + c.Scale*c.R[i]*math.Sin(a)}
	}
	order := make([]int, n)
	for i := range order {
		order[i] = i
		if c.CW {
			order[i] = (n - i) % n
		}
	}
	var ps gen.PathSpec
	ps.Cmds = append(ps.Cmds, gen.Cmd{Op: "M", A: []float64{pts[order[0]].X, pts[order[0]].Y}})
	for k := 1; k <= n; k++ {
		a, b := pts[order[k-1]], pts[order[k%n]]
		kind := c.Kind[k%n]
		if n <= 4 {
			kind = 0 // keep few-vertex contours star-shaped for sure
		}
		switch kind {
		case 1:
			// control point pushed outward from the centre by 10 % of the edge length
			mid := a.Add(b).Mul(0.5)
			out := mid.Sub(oracle.Pt{X: c.C[0], Y: c.C[1]})
			cp := mid.Add(out.Mul(0.1 * a.Dist(b) / (out.Len() + 1e-12)))
			ps.Cmds = append(ps.Cmds, gen.Cmd{Op: "Q", A: []float64{cp.X, cp.Y, b.X, b.Y}})
		case 2:
			// shallow circular arc bulging outward: radius = edge length, sweep chosen by orientation
			sweep := 0.0
			if c.CW {
				sweep = 0 // clockwise traversal: bulge to the left-hand outside means sweep=0 in a y-up system
			} else {
				sweep = 0
			}
			rad := a.Dist(b)
			// outward side: for CCW traversal the outside is on the right => clockwise arc (sweep=0); for CW traversal left => sweep=1
			if c.CW {
				sweep = 1
			}
			ps.Cmds = append(ps.Cmds, gen.Cmd{Op: "A", A: []float64{rad, rad, 0, 0, sweep, b.X, b.Y}})
		default:
			ps.Cmds = append(ps.Cmds, gen.Cmd{Op: "L", A: []float64{b.X, b.Y}})
		}
	}
	ps.Cmds = append(ps.Cmds, gen.Cmd{Op: "z"})
	return ps
}

type FCase struct {
	Contours []Contour `json:"contours"`
}

func genF(t *rapid.T) FCase {
	var c FCase
	// groups of nested contours placed on a coarse grid so that groups are disjoint
	ng := rapid.IntRange(1, 3).Draw(t, "ngroups")
	for g := 0; g < ng; g++ {
		cx, cy := float64(g)*30, float64(rapid.IntRange(-1, 1).Draw(t, "gy"))*4
		depth := rapid.IntRange(1, 3).Draw(t, "depth")
		scale := 10.0
		for d := 0; d < depth; d++ {
			c.Contours = append(c.Contours, genContour(t, cx, cy, scale))
			// the edges of a triangle with vertices at radius >= 0.5*scale come as close as 0.25*scale to the centre:
			// the child (max radius 0.2*scale*1.15) stays inside
			scale *= 0.2
		}
	}
	// shuffle order of subpaths deterministically from a drawn permutation
	perm := rapid.Permutation(c.Contours).Draw(t, "perm")
	c.Contours = perm
	return c
}

func checkF(c FCase, r *vf.R) error {
	var ps gen.PathSpec
	for _, ct := range c.Contours {
		ps.Cmds = append(ps.Cmds, ct.spec().Cmds...)
	}
	p := ps.Build()
	segs, err := oracle.Decode(p.Data())
	if err != nil {
		return vf.Errorf("not decodable: %v", err)
	}
	polys := oracle.Sample(segs, 200)
	if len(polys) != len(c.Contours) {
		return nil // a contour degenerated in the builder
	}
	// the simplicity test is quadratic in the number of edges: a coarse sampling of the whole path, and a fine one of
	// the two ends that meet in every vertex (curved edges leaving a sharp vertex can cross right next to it)
	if oracle.SelfIntersects(oracle.Sample(segs, 32), 1e-9) || crossNearVertex(segs) {
		r.Class("not-simple(discarded)")
		return nil
	}
	subs := p.Split()
	if len(subs) != len(polys) {
		return vf.Errorf("Split gives %d subpaths, path has %d", len(subs), len(polys))
	}
	if len(polys) > 1 {
		r.NonTrivial()
	}
	curved := false
	for _, s := range segs {
		if s.Curved() {
			curved = true
		}
	}
	r.ClassIf(curved, "curved-edges")
	// CCW of every contour
	for i, sp := range subs {
		var got bool
		if err := vf.Try("CCW", func() { got = sp.CCW() }); err != nil {
			return err
		}
		want := oracle.PolyArea(polys[i].P) > 0
		if got != want {
			return vf.Errorf("CCW of contour %d (%v) = %v, signed area is %g", i, sp, got, oracle.PolyArea(polys[i].P))
		}
	}
	// Filling: rule applied to the winding number just inside each contour
	for _, rule := range rules {
		var got []bool
		if err := vf.Try("Filling", func() { got = p.Filling(rule) }); err != nil {
			// Filling shoots a ray from the first point of every contour through the other contours: the findings
			// of windings() apply when that ray passes through or next to a vertex or extreme of another contour
			c, d := levelClash(segs)
			if r.Excluded("F06c", c) || r.Excluded("F06d", d) {
				return nil
			}
			return err
		}
		if len(got) != len(polys) {
			return vf.Errorf("Filling returned %d values for %d subpaths", len(got), len(polys))
		}
		for i, pl := range polys {
			// a point just inside contour i: from an edge midpoint towards the contour's interior
			a, b := pl.P[0], pl.P[1]
			mid := a.Add(b).Mul(0.5)
			nrm := oracle.Pt{X: -(b.Y - a.Y), Y: b.X - a.X} // left normal
			if oracle.PolyArea(pl.P) < 0 {
				nrm = nrm.Mul(-1)
			}
			in := mid.Add(nrm.Mul(1e-4 / (nrm.Len() + 1e-300)))
			wi, _ := oracle.Winding([]oracle.Poly{pl}, in)
			if wi == 0 {
				continue // could not find an interior point this way
			}
			w, _ := oracle.Winding(polys, in)
			if got[i] != fills(rule, w) {
				c, d := levelClash(segs)
				if r.Excluded("F06c", c) || r.Excluded("F06d", d) {
					return nil
				}
				return vf.Errorf("Filling(%v)[%d] = %v, the winding number just inside contour %d is %d (path %v)", rule, i, got[i], i, w, p)
			}
		}
	}
	return nil
}

// levelClash: the first point of a contour is level (within 1e-5) with a vertex or extreme of another contour that has
// curved segments (class of finding F06c), or within 1e-8 of, but not exactly level with, a vertex of another contour
// (class of finding F06d).
func levelClash(segs []oracle.Seg) (curvedLevel, almostLevel bool) {
	type contour struct {
		start  oracle.Pt
		ys     []float64 // vertices
		es     []float64 // extremes of curved segments
		curved bool
	}
	var cs []contour
	for _, s := range segs {
		if s.Cmd == oracle.MoveTo {
			cs = append(cs, contour{start: s.End()})
			continue
		}
		if len(cs) == 0 {
			continue
		}
		c := &cs[len(cs)-1]
		c.ys = append(c.ys, s.End().Y)
		if s.Curved() {
			c.curved = true
			b := oracle.SegBounds(s, 64)
			c.es = append(c.es, b.Y0, b.Y1)
		}
	}
	for i := range cs {
		for j := range cs {
			if i == j {
				continue
			}
			y := cs[i].start.Y
			for _, v := range cs[j].ys {
				if dy := math.Abs(v - y); dy > 0 && dy < 1e-8 {
					almostLevel = true
				}
			}
			if cs[j].curved && (nearLevel(cs[j].ys, y) || nearLevel(cs[j].es, y)) {
				curvedLevel = true
			}
		}
	}
	return
}

// crossNearVertex: the last tenth of a segment and the first tenth of the next one (the closing segment and the first
// one included) meet somewhere else than in their common vertex.
func crossNearVertex(segs []oracle.Seg) bool {
	var subs [][]oracle.Seg
	for _, s := range segs {
		if s.Cmd == oracle.MoveTo {
			subs = append(subs, nil)
			continue
		}
		if len(subs) > 0 && s.P0 != s.End() {
			subs[len(subs)-1] = append(subs[len(subs)-1], s)
		}
	}
	const n = 40
	for _, ss := range subs {
		for i := range ss {
			a, b := ss[i], ss[(i+1)%len(ss)]
			if !a.Curved() && !b.Curved() || len(ss) < 2 {
				continue
			}
			var pa, pb []oracle.Pt
			for k := 0; k <= n; k++ {
				pa = append(pa, a.Eval(1-0.1*float64(k)/n)) // from the vertex backwards
				pb = append(pb, b.Eval(0.1*float64(k)/n))   // from the vertex forwards
			}
			for x := 1; x < n; x++ {
				for y := 1; y < n; y++ {
					if x+y <= 2 {
						continue // the two edges at the vertex itself
					}
					if oracle.SegsTouch(pa[x], pa[x+1], pb[y], pb[y+1], 1e-12) {
						return true
					}
				}
			}
		}
	}
	return false
}

func TestCCWFilling(t *testing.T) {
	vf.Run(t, vf.Prop[FCase]{Sub: "ccwfilling", Gen: genF, Check: checkF, Cases: vf.N(1500, 30000)})
}
