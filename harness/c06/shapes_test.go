package c06

import (
	"sort"
	"testing"

	"pgregory.net/rapid"
	"verif/harness/gen"
	"verif/harness/vf"
)

// ---------------- families of constructed outlines with rays through their special levels ----------------
//
// The general generator rarely produces several horizontal edges on one level, or arcs that end with a horizontal
// tangent. These families do (combs, rounded rectangles, stadiums, D shapes, half discs, circles of two or four arcs, in
// both orientations, on the 1/8 lattice), and the query points are placed level with every vertex and extreme, to the
// left of the outline, between its parts and inside it. The library is right on these families on the pinned tree, so
// the check runs without the class of finding F06c (Family set in the case).

func cmd(op string, a ...float64) gen.Cmd { return gen.Cmd{Op: op, A: a} }

// reverseClosed returns the same closed outline traversed the other way. Only L, C and circular A (rot 0) occur.
func reverseClosed(cs []gen.Cmd) []gen.Cmd {
	// points: start, then the end of every drawing command
	type seg struct {
		c      gen.Cmd
		x0, y0 float64
	}
	var segs []seg
	x, y := cs[0].A[0], cs[0].A[1]
	sx, sy := x, y
	for _, c := range cs[1:] {
		switch c.Op {
		case "L":
			segs = append(segs, seg{c, x, y})
			x, y = c.A[0], c.A[1]
		case "A":
			segs = append(segs, seg{c, x, y})
			x, y = c.A[5], c.A[6]
		case "C":
			segs = append(segs, seg{c, x, y})
			x, y = c.A[4], c.A[5]
		case "z":
			if x != sx || y != sy {
				segs = append(segs, seg{cmd("L", sx, sy), x, y})
			}
			x, y = sx, sy
		}
	}
	out := []gen.Cmd{cmd("M", sx, sy)}
	for i := len(segs) - 1; i >= 0; i-- {
		s := segs[i]
		switch s.c.Op {
		case "L":
			out = append(out, cmd("L", s.x0, s.y0))
		case "A":
			out = append(out, cmd("A", s.c.A[0], s.c.A[1], s.c.A[2], s.c.A[3], 1-s.c.A[4], s.x0, s.y0))
		case "C":
			out = append(out, cmd("C", s.c.A[2], s.c.A[3], s.c.A[0], s.c.A[1], s.x0, s.y0))
		}
	}
	return append(out, cmd("z"))
}

func genShape(t *rapid.T, ox, oy float64) []gen.Cmd {
	u := func(label string, lo, hi int) float64 { return float64(gen.Uniform(t, label, lo, hi)) / 8 }
	var cs []gen.Cmd
	switch rapid.IntRange(0, 7).Draw(t, "family") {
	case 7: // an S-shaped cubic (one inflection point) that leaves and reaches its vertices with a horizontal tangent
		w, h := u("w", 16, 80), u("h", 16, 80)
		d, e, f := u("d", 8, 40), u("e", 0, 40), u("f", 8, 40)
		if rapid.Bool().Draw(t, "left") { // heading -x
			cs = append(cs, cmd("M", ox, oy), cmd("C", ox-w, oy, ox, oy-h, ox-w, oy-h), cmd("L", ox-w-d, oy-h-e), cmd("L", ox-w-d, oy+f), cmd("L", ox, oy+f), cmd("z"))
		} else { // heading +x
			cs = append(cs, cmd("M", ox, oy), cmd("C", ox+w, oy, ox, oy+h, ox+w, oy+h), cmd("L", ox+w+d, oy+h+e), cmd("L", ox+w+d, oy-f), cmd("L", ox, oy-f), cmd("z"))
		}
	case 0: // comb: teeth of equal or different height above a base, valleys on one or several levels
		n := rapid.IntRange(2, 4).Draw(t, "teeth")
		H := u("H", 24, 64)
		same := rapid.Bool().Draw(t, "sameValley")
		sameTop := rapid.Bool().Draw(t, "sameTop")
		h0 := u("h0", 4, 20)
		tw, gw := u("tw", 4, 16), u("gw", 4, 16)
		cs = append(cs, cmd("M", ox, oy))
		x := ox
		W := float64(n)*tw + float64(n-1)*gw
		cs = append(cs, cmd("L", ox+W, oy))
		x = ox + W
		for i := 0; i < n; i++ {
			top := H
			if !sameTop {
				top = H + u("dt", -8, 8)
			}
			cs = append(cs, cmd("L", x, oy+top), cmd("L", x-tw, oy+top))
			x -= tw
			if i < n-1 {
				h := h0
				if !same {
					h = u("h", 4, 20)
				}
				cs = append(cs, cmd("L", x, oy+h), cmd("L", x-gw, oy+h))
				x -= gw
			}
		}
		cs = append(cs, cmd("z"))
	case 1: // rounded rectangle (counter clockwise as built)
		w, h := u("w", 16, 80), u("h", 16, 80)
		m := w
		if h < m {
			m = h
		}
		r := float64(gen.Uniform(t, "r", 1, int(m*4))) / 8 // r <= m/2
		cs = append(cs, cmd("M", ox+r, oy))
		if w > 2*r {
			cs = append(cs, cmd("L", ox+w-r, oy))
		}
		cs = append(cs, cmd("A", r, r, 0, 0, 1, ox+w, oy+r))
		if h > 2*r {
			cs = append(cs, cmd("L", ox+w, oy+h-r))
		}
		cs = append(cs, cmd("A", r, r, 0, 0, 1, ox+w-r, oy+h))
		if w > 2*r {
			cs = append(cs, cmd("L", ox+r, oy+h))
		}
		cs = append(cs, cmd("A", r, r, 0, 0, 1, ox, oy+h-r))
		if h > 2*r {
			cs = append(cs, cmd("L", ox, oy+r))
		}
		cs = append(cs, cmd("A", r, r, 0, 0, 1, ox+r, oy), cmd("z"))
	case 2: // D shape: vertical line on the left, half circle to the right
		r := u("r", 8, 40)
		cs = append(cs, cmd("M", ox, oy), cmd("A", r, r, 0, 0, 1, ox, oy+2*r), cmd("z"))
	case 3: // half disc on a horizontal base, bulging up or down
		r := u("r", 8, 40)
		if rapid.Bool().Draw(t, "up") {
			cs = append(cs, cmd("M", ox+2*r, oy), cmd("A", r, r, 0, 0, 1, ox, oy), cmd("z"))
		} else {
			cs = append(cs, cmd("M", ox, oy), cmd("A", r, r, 0, 0, 1, ox+2*r, oy), cmd("z"))
		}
	case 4: // circle of two arcs, split left/right or top/bottom
		r := u("r", 8, 40)
		if rapid.Bool().Draw(t, "lr") {
			cs = append(cs, cmd("M", ox+2*r, oy+r), cmd("A", r, r, 0, 0, 1, ox, oy+r), cmd("A", r, r, 0, 0, 1, ox+2*r, oy+r), cmd("z"))
		} else {
			cs = append(cs, cmd("M", ox+r, oy), cmd("A", r, r, 0, 0, 1, ox+r, oy+2*r), cmd("A", r, r, 0, 0, 1, ox+r, oy), cmd("z"))
		}
	case 5: // stadium: two horizontal lines, two half circles
		r, l := u("r", 8, 32), u("l", 8, 48)
		cs = append(cs, cmd("M", ox+r, oy), cmd("L", ox+r+l, oy), cmd("A", r, r, 0, 0, 1, ox+r+l, oy+2*r), cmd("L", ox+r, oy+2*r), cmd("A", r, r, 0, 0, 1, ox+r, oy), cmd("z"))
	default: // staircase / H-like polygon: several horizontal edges, some on shared levels
		a, b, c2 := u("a", 8, 24), u("b", 8, 24), u("c", 8, 24)
		h1, h2 := u("h1", 8, 24), u("h2", 8, 24)
		// H: left leg, bar, right leg
		cs = append(cs, cmd("M", ox, oy), cmd("L", ox+a, oy), cmd("L", ox+a, oy+h1), cmd("L", ox+a+b, oy+h1), cmd("L", ox+a+b, oy),
			cmd("L", ox+a+b+c2, oy), cmd("L", ox+a+b+c2, oy+2*h1+h2), cmd("L", ox+a+b, oy+2*h1+h2), cmd("L", ox+a+b, oy+h1+h2),
			cmd("L", ox+a, oy+h1+h2), cmd("L", ox+a, oy+2*h1+h2), cmd("L", ox, oy+2*h1+h2), cmd("z"))
	}
	if rapid.Bool().Draw(t, "cw") {
		cs = reverseClosed(cs)
	}
	return cs
}

func genShapes(t *rapid.T) WCase {
	c := WCase{Family: "shapes"}
	n := rapid.IntRange(1, 2).Draw(t, "nshapes")
	for i := 0; i < n; i++ {
		ox := float64(gen.Uniform(t, "ox", -40, 40)) / 8
		oy := float64(gen.Uniform(t, "oy", -40, 40)) / 8
		if i == 1 && rapid.Bool().Draw(t, "sameLevel") {
			// the second outline starts level with the first one, further right: one ray meets both
			oy = c.Path.Cmds[0].A[1]
			ox += 12
		}
		c.Path.Cmds = append(c.Path.Cmds, genShape(t, ox, oy)...)
	}
	// special levels and x positions
	var ys, xs []float64
	for _, cm := range c.Path.Cmds {
		if k := len(cm.A); k >= 2 {
			xs, ys = append(xs, cm.A[k-2]), append(ys, cm.A[k-1])
			if cm.Op == "A" {
				// extremes of the circle the arc lies on (candidates; harmless when not on the arc)
				ys = append(ys, cm.A[k-1]+cm.A[0], cm.A[k-1]-cm.A[0])
			}
		}
	}
	sort.Float64s(xs)
	xmin, xmax := xs[0], xs[len(xs)-1]
	for i, y := range ys {
		if i > 0 && containsF(ys[:i], y) {
			continue
		}
		// to the left, to the right, and between consecutive distinct x positions (offset from the lattice to stay off vertical edges)
		c.Q = append(c.Q, [2]float64{xmin - 1 - float64(gen.Uniform(t, "dl", 0, 16))/8, y}, [2]float64{xmax + 0.5, y})
		c.Kind = append(c.Kind, "level-left", "level-right")
		for j := 1; j < len(xs); j++ {
			if xs[j]-xs[j-1] > 0.2 && rapid.IntRange(0, 2).Draw(t, "mid") == 0 {
				c.Q = append(c.Q, [2]float64{(xs[j] + xs[j-1]) / 2, y})
				c.Kind = append(c.Kind, "level-between")
			}
		}
		if len(c.Q) > 60 {
			break
		}
	}
	return c
}

func containsF(v []float64, x float64) bool {
	for _, y := range v {
		if y == x {
			return true
		}
	}
	return false
}

func TestShapes(t *testing.T) {
	vf.Run(t, vf.Prop[WCase]{Sub: "shapes", Gen: genShapes, Check: checkW, Cases: vf.N(2500, 50000)})
}
