package c13

import (
	"bytes"
	"fmt"
	"image"
	"image/color"
	"math"
	"strings"
	"sync"
	"testing"

	"github.com/tdewolff/canvas"
	"github.com/tdewolff/canvas/renderers/pdf"
	"pgregory.net/rapid"

	"verif/harness/gen"
	"verif/harness/pdfread"
	"verif/harness/vf"
)

func TestMain(m *testing.M) { vf.Main(m, "C13") }

type Stop struct {
	Off float64 `json:"off"`
	Col int     `json:"col"`
}

type Paint struct {
	Kind  int       `json:"kind"` // 0 none, 1 colour, 2 linear gradient, 3 radial gradient
	Col   int       `json:"col,omitempty"`
	Geom  []float64 `json:"geom,omitempty"`
	Stops []Stop    `json:"stops,omitempty"`
}

type Draw struct {
	Kind string `json:"kind"` // path, image, text, link
	// path
	Shape    int       `json:"shape,omitempty"`
	XY       []float64 `json:"xy,omitempty"`
	Fill     Paint     `json:"fill"`
	Stroke   Paint     `json:"stroke"`
	Width    float64   `json:"width,omitempty"`
	Cap      int       `json:"cap,omitempty"`
	Join     int       `json:"join,omitempty"`
	Limit    float64   `json:"limit,omitempty"`
	Dashes   []float64 `json:"dashes,omitempty"`
	DashOff  float64   `json:"dashoff,omitempty"`
	EvenOdd  bool      `json:"evenodd,omitempty"`
	View     int       `json:"view,omitempty"`
	// image
	Img int     `json:"img,omitempty"`
	Res float64 `json:"res,omitempty"`
	// text
	Face int    `json:"face,omitempty"`
	Text string `json:"text,omitempty"`
	// link
	URI string `json:"uri,omitempty"`
}

type PageSpec struct {
	W     float64 `json:"w"`
	H     float64 `json:"h"`
	Draws []Draw  `json:"draws"`
}

type Case struct {
	Pages    []PageSpec `json:"pages"`
	Compress bool       `json:"compress"`
	Subset   bool       `json:"subset"`
	Lossy    bool       `json:"lossy"`
	NilOpts  bool       `json:"nil_opts"`
	Info     []string   `json:"info"` // title, subject, keywords, author, creator
	SetInfo  bool       `json:"set_info"`
	Lang     string     `json:"lang"`
}

var palette = []color.RGBA{{255, 0, 0, 255}, {0, 128, 0, 255}, {0, 0, 255, 255}, {0, 0, 0, 255}, {90, 90, 90, 255}, {100, 50, 25, 128}, {0, 0, 60, 60}, {0, 0, 0, 0}, {255, 255, 255, 255}}

var infoStrings = []string{"", "a1", "Report (draft)", "back\\slash", "Ünïcödé ✓", "line\nbreak", "carriage\rreturn", "tab\tand (unbalanced", "close) first", "日本語", "é", "x𝄞y", "čšž U+010D", "a\r\nb", "percent % sign", "<hex>", "/name"}
var langs = []string{"", "en", "es-CL", "nl-NL"}
var uris = []string{"https://example.com", "https://example.com/a(b)c", "mailto:a@b.c", "https://example.com/q?x=1&y=\\z", "http://ex.com/ünï"}
var texts = []string{"Hello", "fi office AV", "(parens) \\ back", "a\tb", "Ünï ✓", "x", "The quick brown fox", "line one\nline two", "שלום", "12.5%"}

var (
	once   sync.Once
	faces  []*canvas.FontFace
	images []image.Image
	ferr   error
)

func setup() error {
	once.Do(func() {
		dv := canvas.NewFontFamily("dejavu-serif")
		if ferr = dv.LoadFontFile("/repo/resources/DejaVuSerif.ttf", canvas.FontRegular); ferr != nil {
			return
		}
		gm := canvas.NewFontFamily("eb-garamond")
		if ferr = gm.LoadFontFile("/repo/resources/EBGaramond12-Regular.otf", canvas.FontRegular); ferr != nil {
			return
		}
		hv := canvas.NewFontFamily("helvetica") // standard 14 font by name: not embedded
		if ferr = hv.LoadFontFile("/repo/resources/DejaVuSerif.ttf", canvas.FontRegular); ferr != nil {
			return
		}
		faces = []*canvas.FontFace{
			dv.Face(12, canvas.Black, canvas.FontRegular, canvas.FontNormal),
			gm.Face(10, canvas.Red, canvas.FontRegular, canvas.FontNormal),
			hv.Face(9, canvas.Blue, canvas.FontRegular, canvas.FontNormal),
			dv.Face(14, color.RGBA{0, 0, 100, 128}, canvas.FontRegular, canvas.FontNormal, canvas.FontUnderline),
			dv.Face(10, canvas.Black, canvas.FontBold, canvas.FontNormal), // faux bold
		}
		op := image.NewNRGBA(image.Rect(0, 0, 3, 2))
		al := image.NewNRGBA(image.Rect(0, 0, 2, 3))
		gr := image.NewRGBA(image.Rect(1, 1, 5, 4))
		for y := 0; y < 4; y++ {
			for x := 0; x < 5; x++ {
				op.SetNRGBA(x, y, color.NRGBA{uint8(80 * x), uint8(100 * y), 200, 255})
				al.SetNRGBA(x, y, color.NRGBA{uint8(80 * x), uint8(60 * y), 20, uint8(60 + 60*x)})
				gr.SetRGBA(x, y, color.RGBA{uint8(40 * x), uint8(40 * x), uint8(40 * x), 255})
			}
		}
		images = []image.Image{op, al, gr}
	})
	return ferr
}

func coord(t *rapid.T, label string) float64 {
	return float64(gen.Uniform(t, label, 0, 400)) / 4
}

func genPaint(t *rapid.T, label string, allowNone bool) Paint {
	k := rapid.IntRange(0, 9).Draw(t, label+"kind")
	switch {
	case k == 0 && allowNone:
		return Paint{}
	case k <= 6:
		return Paint{Kind: 1, Col: rapid.IntRange(0, len(palette)-1).Draw(t, label+"col")}
	}
	p := Paint{Kind: 2}
	ng := 4
	if k == 9 {
		p.Kind, ng = 3, 6
	}
	for i := 0; i < ng; i++ {
		p.Geom = append(p.Geom, coord(t, label+"g"))
	}
	ns := rapid.IntRange(0, 4).Draw(t, label+"nstops")
	off := 0.0
	for i := 0; i < ns; i++ {
		if i > 0 || rapid.Bool().Draw(t, label+"off0") {
			off = math.Min(1, off+float64(rapid.IntRange(0, 4).Draw(t, label+"doff"))/8)
		}
		if i == ns-1 && rapid.Bool().Draw(t, label+"off1") {
			off = 1
		}
		p.Stops = append(p.Stops, Stop{off, rapid.IntRange(0, len(palette)-1).Draw(t, label+"scol")})
	}
	return p
}

func genDraw(t *rapid.T) Draw {
	k := rapid.IntRange(0, 9).Draw(t, "dkind")
	switch {
	case k <= 4:
		d := Draw{Kind: "path", Shape: rapid.IntRange(0, 4).Draw(t, "shape")}
		n := []int{4, 6, 4, 8, 0}[d.Shape]
		for i := 0; i < n; i++ {
			d.XY = append(d.XY, coord(t, "xy"))
		}
		d.Fill = genPaint(t, "fill", true)
		d.Stroke = genPaint(t, "stroke", true)
		d.Width = float64(rapid.IntRange(0, 12).Draw(t, "width")) / 4
		d.Cap = rapid.IntRange(0, 2).Draw(t, "cap")
		d.Join = rapid.IntRange(0, 5).Draw(t, "join")
		d.Limit = float64(rapid.IntRange(1, 8).Draw(t, "limit"))
		nd := rapid.IntRange(0, 3).Draw(t, "ndash")
		if rapid.IntRange(0, 2).Draw(t, "dashed") != 0 {
			nd = 0
		}
		for i := 0; i < nd; i++ {
			d.Dashes = append(d.Dashes, float64(rapid.IntRange(1, 12).Draw(t, "dash"))/4)
		}
		d.DashOff = float64(rapid.IntRange(-8, 8).Draw(t, "dashoff")) / 2
		d.EvenOdd = rapid.Bool().Draw(t, "evenodd")
		d.View = rapid.IntRange(0, 4).Draw(t, "view")
		return d
	case k <= 6:
		return Draw{Kind: "image", Img: rapid.IntRange(0, 2).Draw(t, "img"), XY: []float64{coord(t, "ix"), coord(t, "iy")}, Res: float64(rapid.IntRange(1, 8).Draw(t, "res")) / 2, View: rapid.IntRange(0, 4).Draw(t, "view")}
	case k == 8 && rapid.Bool().Draw(t, "vertical"):
		// vertical writing with upright glyphs: the same font is then registered a second time for the vertical direction
		return Draw{Kind: "vtext", Face: rapid.IntRange(0, 1).Draw(t, "face"), Text: texts[rapid.IntRange(0, 1).Draw(t, "text")], XY: []float64{coord(t, "tx"), coord(t, "ty")}, Img: rapid.IntRange(0, 1).Draw(t, "upright")}
	case k <= 8:
		return Draw{Kind: "text", Face: rapid.IntRange(0, 4).Draw(t, "face"), Text: texts[rapid.IntRange(0, len(texts)-1).Draw(t, "text")], XY: []float64{coord(t, "tx"), coord(t, "ty")}, View: rapid.IntRange(0, 4).Draw(t, "view")}
	default:
		return Draw{Kind: "link", URI: uris[rapid.IntRange(0, len(uris)-1).Draw(t, "uri")], XY: []float64{coord(t, "lx"), coord(t, "ly"), coord(t, "lx"), coord(t, "ly")}}
	}
}

func genCase(t *rapid.T) Case {
	var c Case
	np := rapid.IntRange(1, 4).Draw(t, "npages")
	for i := 0; i < np; i++ {
		pg := PageSpec{W: float64(rapid.IntRange(1, 12).Draw(t, "pw")) * 25, H: float64(rapid.IntRange(1, 12).Draw(t, "ph")) * 25}
		nd := rapid.IntRange(0, 8).Draw(t, "ndraws")
		for j := 0; j < nd; j++ {
			pg.Draws = append(pg.Draws, genDraw(t))
		}
		c.Pages = append(c.Pages, pg)
	}
	c.Compress = rapid.Bool().Draw(t, "compress")
	c.Subset = rapid.Bool().Draw(t, "subset")
	c.Lossy = rapid.IntRange(0, 3).Draw(t, "lossy") == 0
	c.NilOpts = rapid.IntRange(0, 7).Draw(t, "nilopts") == 0
	c.SetInfo = rapid.IntRange(0, 3).Draw(t, "setinfo") != 0
	for i := 0; i < 5; i++ {
		c.Info = append(c.Info, infoStrings[rapid.IntRange(0, len(infoStrings)-1).Draw(t, "info")])
	}
	c.Lang = langs[rapid.IntRange(0, len(langs)-1).Draw(t, "lang")]
	return c
}

var views = []canvas.Matrix{
	canvas.Identity,
	canvas.Identity.Translate(10, 5),
	canvas.Identity.Scale(0.5, 0.5).Translate(7, 3),
	canvas.Identity.Rotate(30).Translate(20, 0),
	canvas.Identity.Scale(1.5, 0.5),
}

func mkPaint(p Paint) canvas.Paint {
	switch p.Kind {
	case 1:
		return canvas.Paint{Color: palette[p.Col]}
	case 2, 3:
		var stops canvas.Stops
		for _, s := range p.Stops {
			stops.Add(s.Off, palette[s.Col])
		}
		if p.Kind == 2 {
			g := canvas.NewLinearGradient(canvas.Point{X: p.Geom[0], Y: p.Geom[1]}, canvas.Point{X: p.Geom[2], Y: p.Geom[3]})
			g.Stops = stops
			return canvas.Paint{Gradient: g}
		}
		g := canvas.NewRadialGradient(canvas.Point{X: p.Geom[0], Y: p.Geom[1]}, p.Geom[2]/4, canvas.Point{X: p.Geom[3], Y: p.Geom[4]}, p.Geom[5]/2)
		g.Stops = stops
		return canvas.Paint{Gradient: g}
	}
	return canvas.Paint{}
}

func mkPath(d Draw) *canvas.Path {
	p := &canvas.Path{}
	xy := d.XY
	switch d.Shape {
	case 0: // open polyline
		p.MoveTo(xy[0], xy[1])
		p.LineTo(xy[2], xy[3])
	case 1: // closed triangle
		p.MoveTo(xy[0], xy[1])
		p.LineTo(xy[2], xy[3])
		p.LineTo(xy[4], xy[5])
		p.Close()
	case 2: // ellipse
		p = canvas.Ellipse(1+xy[2]/8, 1+xy[3]/8).Translate(xy[0], xy[1])
	case 3: // cubic + quad, two subpaths
		p.MoveTo(xy[0], xy[1])
		p.CubeTo(xy[2], xy[3], xy[4], xy[5], xy[6], xy[7])
		p.MoveTo(xy[2], xy[3])
		p.QuadTo(xy[0], xy[1], xy[6], xy[7])
		p.Close()
	case 4: // empty path
	}
	return p
}

var caps = []canvas.Capper{canvas.ButtCap, canvas.RoundCap, canvas.SquareCap}

func mkJoin(d Draw) canvas.Joiner {
	switch d.Join {
	case 0:
		return canvas.BevelJoin
	case 1:
		return canvas.RoundJoin
	case 2:
		return canvas.MiterJoiner{GapJoiner: canvas.BevelJoin, Limit: d.Limit}
	case 3:
		return canvas.MiterJoiner{GapJoiner: canvas.RoundJoin, Limit: d.Limit} // not expressible: outline fallback
	case 4:
		return canvas.ArcsJoin
	default:
		return canvas.MiterJoin
	}
}

type built struct {
	bytes     []byte
	pageFonts []map[int]bool // per page: faces used
	pageImgs  []map[int]bool
	nlinks    []int
}

func build(c Case) (out built, err error) {
	if err := setup(); err != nil {
		return out, err
	}
	var buf bytes.Buffer
	var opts *pdf.Options
	if !c.NilOpts {
		enc := canvas.Lossless
		if c.Lossy {
			enc = canvas.Lossy
		}
		opts = &pdf.Options{Compress: c.Compress, SubsetFonts: c.Subset, ImageEncoding: enc}
	}
	var r *pdf.PDF
	perr := vf.Try("PDF rendering", func() {
		for i, pg := range c.Pages {
			if i == 0 {
				r = pdf.New(&buf, pg.W, pg.H, opts)
				if c.SetInfo {
					r.SetInfo(c.Info[0], c.Info[1], c.Info[2], c.Info[3], c.Info[4])
				}
				if c.Lang != "" {
					r.SetLang(c.Lang)
				}
			} else {
				r.NewPage(pg.W, pg.H)
			}
			out.pageFonts = append(out.pageFonts, map[int]bool{})
			out.pageImgs = append(out.pageImgs, map[int]bool{})
			out.nlinks = append(out.nlinks, 0)
			cv := canvas.New(pg.W, pg.H)
			ctx := canvas.NewContext(cv)
			for _, d := range pg.Draws {
				ctx.ResetView()
				ctx.SetView(views[d.View])
				switch d.Kind {
				case "path":
					ctx.SetFill(mkPaint(d.Fill))
					ctx.SetStroke(mkPaint(d.Stroke))
					ctx.SetStrokeWidth(d.Width)
					ctx.SetStrokeCapper(caps[d.Cap])
					ctx.SetStrokeJoiner(mkJoin(d))
					ctx.SetDashes(d.DashOff, d.Dashes...)
					if d.EvenOdd {
						ctx.SetFillRule(canvas.EvenOdd)
					} else {
						ctx.SetFillRule(canvas.NonZero)
					}
					ctx.DrawPath(0, 0, mkPath(d))
				case "image":
					ctx.DrawImage(d.XY[0], d.XY[1], images[d.Img], canvas.DPMM(d.Res))
					out.pageImgs[i][d.Img] = true
				case "text":
					ctx.DrawText(d.XY[0], d.XY[1], canvas.NewTextLine(faces[d.Face], d.Text, canvas.Left))
					out.pageFonts[i][d.Face] = true
				case "vtext":
					rt := canvas.NewRichText(faces[d.Face])
					rt.SetWritingMode(canvas.VerticalRL)
					if d.Img == 1 {
						rt.SetTextOrientation(canvas.Upright)
					}
					rt.WriteString(d.Text)
					ctx.DrawText(d.XY[0], d.XY[1], rt.ToText(0, 60, canvas.Left, canvas.Top, 0, 0))
					out.pageFonts[i][d.Face] = true
				case "link":
					r.AddLink(d.URI, canvas.Rect{X0: math.Min(d.XY[0], d.XY[2]), Y0: math.Min(d.XY[1], d.XY[3]), X1: math.Max(d.XY[0], d.XY[2]), Y1: math.Max(d.XY[1], d.XY[3])})
					out.nlinks[i]++
				}
			}
			cv.RenderTo(r)
		}
		if cerr := r.Close(); cerr != nil {
			panic(fmt.Sprintf("Close: %v", cerr))
		}
	})
	out.bytes = buf.Bytes()
	return out, perr
}

func checkCase(c Case, r *vf.R) error {
	b, err := build(c)
	if err != nil {
		// a panic raised by the path geometry code (dashing, stroking, settling of an explicitly drawn stroke) before anything is written is not a statement about the PDF bytes; those operations are the subject of C02, C04 and C05. A panic inside the PDF renderer is.
		if msg := err.Error(); strings.Contains(msg, "panic in PDF rendering") {
			if i := strings.Index(msg, "\npanic("); i >= 0 {
				rest := msg[i+1:]
				if j := strings.Index(rest, "github.com/tdewolff/canvas"); j >= 0 && strings.HasPrefix(rest[j:], "github.com/tdewolff/canvas.") {
					r.Class("skipped:panic-in-path-geometry")
					return nil
				}
			}
		}
		return err
	}
	hasText, hasImg, hasGrad, nlinks := false, false, false, 0
	sharedImg := false
	seenImg := map[int]int{}
	for i, pg := range c.Pages {
		for _, d := range pg.Draws {
			switch d.Kind {
			case "text", "vtext":
				hasText = true
			case "image":
				hasImg = true
				if p, ok := seenImg[d.Img]; ok && p != i {
					sharedImg = true
				}
				seenImg[d.Img] = i
			case "path":
				if d.Fill.Kind >= 2 || d.Stroke.Kind >= 2 {
					hasGrad = true
				}
			case "link":
				nlinks++
			}
		}
	}
	r.ClassIf(len(c.Pages) > 1, "multi-page")
	r.ClassIf(hasText, "text")
	r.ClassIf(hasText && !c.Subset && !c.NilOpts, "text-without-subsetting")
	r.ClassIf(hasImg, "image")
	r.ClassIf(sharedImg, "image-shared-between-pages")
	r.ClassIf(hasGrad, "gradient")
	r.ClassIf(nlinks > 0, "links")
	r.ClassIf(!c.Compress && !c.NilOpts, "uncompressed")
	if len(c.Pages) > 1 && (hasText || hasImg || hasGrad) {
		r.NonTrivial()
	}
	f, probs := pdfread.Parse(b.bytes)
	var pages []*pdfread.Page
	if len(probs) == 0 {
		var p2 pdfread.Problems
		pages, p2 = f.Validate()
		probs = append(probs, p2...)
		for _, pg := range pages {
			probs = append(probs, f.CheckResources(pg)...)
		}
	}
	if len(probs) > 0 {
		n := len(probs)
		if n > 6 {
			probs = probs[:6]
		}
		return vf.Errorf("%d structural problem(s) in a PDF of %d page(s), %d bytes:\n  %s", n, len(c.Pages), len(b.bytes), strings.Join(probs, "\n  "))
	}
	for _, pg := range pages {
		r.ClassIf(len(pg.Notes) > 0, "note:operator-outside-its-graphics-object")
	}
	// the page tree lists the pages that were added, with their sizes
	if len(pages) != len(c.Pages) {
		return vf.Errorf("%d pages in the page tree, %d pages were added", len(pages), len(c.Pages))
	}
	const ptPerMm = 72 / 25.4
	for i, pg := range pages {
		w, h := pg.MediaBox[2]-pg.MediaBox[0], pg.MediaBox[3]-pg.MediaBox[1]
		if math.Abs(w-c.Pages[i].W*ptPerMm) > 1e-3*(1+w) || math.Abs(h-c.Pages[i].H*ptPerMm) > 1e-3*(1+h) {
			return vf.Errorf("page %d has MediaBox %v, the page added is %v x %v mm", i, pg.MediaBox, c.Pages[i].W, c.Pages[i].H)
		}
		na := 0
		if a, ok := f.Resolve(pg.Dict["Annots"]).(pdfread.Array); ok {
			na = len(a)
		}
		if na != b.nlinks[i] {
			return vf.Errorf("page %d has %d annotations, %d links were added to it", i, na, b.nlinks[i])
		}
	}
	// document information
	info := f.Dict(f.Trailer["Info"])
	if c.SetInfo {
		for i, key := range []pdfread.Name{"Title", "Subject", "Keywords", "Author", "Creator"} {
			want := c.Info[i]
			got := ""
			v, present := info[key]
			if s, ok := v.(pdfread.String); ok {
				got = pdfread.TextString(s)
			} else if present {
				return vf.Errorf("document information /%s is not a string: %v", key, v)
			}
			if got != want {
				return vf.Errorf("document information /%s reads %q, it was set to %q", key, got, want)
			}
		}
	}
	cat := f.Dict(f.Trailer["Root"])
	if c.Lang != "" {
		s, ok := cat["Lang"].(pdfread.String)
		if !ok || pdfread.TextString(s) != c.Lang {
			return vf.Errorf("catalog /Lang reads %v, the language was set to %q", cat["Lang"], c.Lang)
		}
	}
	return nil
}

func TestDocument(t *testing.T) {
	vf.Run(t, vf.Prop[Case]{Sub: "document", Gen: genCase, Check: checkCase, Cases: vf.N(600, 6000)})
}
