// Package dl is the display list the independent SVG, PDF and PostScript interpreters produce: what is painted, with which paint, in which order. It does not import canvas.
package dl

import "verif/harness/oracle"

// RGBA is a colour with straight (not premultiplied) alpha, all components in [0,1].
type RGBA struct{ R, G, B, A float64 }

type Stop struct {
	Off float64
	C   RGBA
}

// Gradient is an axial (linear) or radial gradient in the document's coordinates; the colour outside [0,1] extends the end colours.
type Gradient struct {
	Radial                 bool
	X0, Y0, R0, X1, Y1, R1 float64
	Stops                  []Stop
}

type Paint struct {
	Color RGBA
	Grad  *Gradient
}

const (
	CapButt = iota
	CapRound
	CapSquare
)

const (
	JoinMiter = iota
	JoinRound
	JoinBevel
	JoinArcs
)

type Stroke struct {
	Paint      Paint
	Width      float64
	Cap, Join  int
	MiterLimit float64
	Dashes     []float64
	DashOffset float64
}

// Image is a raster image; M maps image space (u to the right in [0,W], v downwards from the top row in [0,H]) to document coordinates.
type Image struct {
	W, H int
	Pix  []RGBA // row major from the top row
	M    oracle.Mat
}

// Item is one painting operation: a path that is filled, then stroked, or an image.
type Item struct {
	// M, when set, maps the item's own coordinate system to document coordinates: the path is filled and stroked (width, dashes in its own units) in its own system and the result is transformed, which is how SVG defines painting under a transform.
	M       *oracle.Mat
	Segs    []oracle.Seg
	Fill    *Paint
	EvenOdd bool
	Stroke  *Stroke
	Image   *Image
}

// Doc is a page. With YDown the origin is the top-left corner and y grows downwards (SVG), otherwise the bottom-left corner and y grows upwards (PDF, PostScript). Units are millimetres.
type Doc struct {
	W, H  float64
	YDown bool
	Items []Item
}
