package c11

import (
	"strings"
	"testing"

	"github.com/tdewolff/canvas"

	"verif/harness/vf"
)

// Native coverage-guided fuzz targets (thorough tier only). The semantic oracle of the generated check is
// inside the target: exactly one of result/error, no panic, agreement with the independent reader.
func FuzzParseSVGPath(f *testing.F) {
	for _, s := range []string{"", " ", ",", "M", "M1", "M0 0L1 1z", "A1 1 0 2 0 1 1", "M0 0A5 5 0 ", "M0 0a5 5 30 1", "-", "+", "1e400", "M1e400 0",
		"M10 10C20 20 40 20 50 10S80 0 90 10", "M0 0Q5 5 10 0T20 0", "m1 1 2 2 3 3zl5 5", "M0 0h5v5h-5z", "M0,0 5,5.5.5-1", "M0 0A1 1 0 0110 10", "M0 1 Z H 0 0"} {
		f.Add(s)
	}
	f.Fuzz(func(t *testing.T, s string) {
		if len(s) > 2000 {
			return
		}
		if err := checkP(PCase{S: s}, newR()); err != nil {
			t.Fatalf("%v", err)
		}
	})
}

func FuzzParseSVG(f *testing.F) {
	for _, s := range []string{"", "<svg", "<svg></svg>", `<svg width="10" height="10"><rect width="5" height="5"/></svg>`,
		`<svg viewBox="0 0 10 10"><g transform="rotate(30) translate(1,2)"><path d="M0 0L5 5z" fill="red" stroke="#00f"/></g></svg>`,
		`<svg width="100mm" height="50%"><circle r="5"/><ellipse rx="3" ry="2"/><line x2="4" y2="4"/><polyline points="0,0 1,1 2,0"/><polygon points="0,0 1,1"/></svg>`,
		`<svg><style>rect{fill:blue} .a>path{stroke:red}</style><g class="a"><path d="M0 0"/></g></svg>`, `<svg><path d=" "/></svg>`, `<svg width="-1" height="nan"/>`, "<svg><path d=000"} {
		f.Add(s)
	}
	f.Fuzz(func(t *testing.T, s string) {
		if len(s) > 4000 {
			return
		}
		var c *canvas.Canvas
		var err error
		if perr := vf.Try("ParseSVG", func() { c, err = canvas.ParseSVG(strings.NewReader(s)) }); perr != nil {
			t.Fatalf("ParseSVG(%q): %v", s, perr)
		}
		if c == nil && err == nil {
			t.Fatalf("ParseSVG(%q) returned neither a canvas nor an error", s)
		}
	})
}

func newR() *vf.R { return &vf.R{} }
