package c11

import (
	"fmt"
	"strings"
	"testing"
	"time"

	"github.com/tdewolff/canvas"
	"pgregory.net/rapid"
	"verif/harness/vf"
)

// ---------------- ParseSVG returns a canvas or an error for every document ----------------
//
// Documents are generated from the element/attribute grammar ParseSVG reads, with attribute values drawn from pools of
// well-formed and malformed values (truncated numbers, odd coordinate counts, missing arguments, unknown units,
// unbalanced parentheses, empty strings), then optionally truncated or damaged by one byte. The only oracle is
// totality: a canvas or an error, no panic, no hang (what ParseSVG draws is property C19).

type DCase struct {
	Doc string `json:"doc"`
}

var (
	numPool   = []string{"0", "1", "10", "-1", "2.5", ".5", "5.", "1e2", "1e400", "-", "+", "1e", "nan", "inf", "10%", "5mm", "5px", "3em", "7pt", "1in", "", " ", "1,2", "1 2 3", "a", "0x10", "--1", "1..2", "100000000"}
	pointPool = []string{"0,0 1,1 2,0", "0,0 1,1", "0,0 1", "1", "", " ", "0,0,1,1,2", "0 0 1 1 2 0 3", "1,", ",", "1,,2", "a,b", "0,0 1e,1", "1e400,0 0,0", "0,0\n5,5\t9,0", "-1-2-3-4", "1 2 3 4 5 6 7 8 9"}
	pathPool  = []string{"M0 0L5 5z", "M0 0", "", " ", "M", "M0", "M0 0L", "L5 5", "M0 0A1 1 0 0", "M0 0A1 1 0 1 1", "M0 0C1 1 2 2", "M0 0h", "M0 0Q1", "M0 0zL1 1", "M1e400 0L0 0", "m1 1 2 2 3 3z", "M0,0T1 1S2 2 3 3", "M0 0L1 1M", "z", "M0 0a1 1 0 11 2 2"}
	transPool = []string{"rotate(30)", "rotate(30 1 2)", "rotate(", "rotate()", "rotate(1 2)", "translate(1)", "translate(1,2)", "translate(", "scale(2)", "scale()", "scale(1 2 3)", "matrix(1 0 0 1 0 0)", "matrix(1 2 3)", "matrix()", "skewX(45)", "skewY(45", "skewX()", "foo(1)", "rotate(30) translate(1,2) scale(2)", "rotate(30)translate(1", ")", "(", "rotate 30", "", " ", "rotate(a)", "translate(1e400)", "rotate(30),,scale(2)"}
	paintPool = []string{"red", "none", "#fff", "#ffffff", "#ffff", "#12", "#", "#ggg", "rgb(1,2,3)", "rgb(1,2", "rgb(10%,20%,30%)", "rgb()", "rgb(1,2,3,4)", "rgba(1,2,3,.5)", "url(#a)", "url(", "url(\"#)", "url(\"#a\")", "url(a#)", "url(#)", "currentColor", "", " ", "transparent", "RED", "rgb(a,b,c)", "rgb(300,-1,1e9)"}
	dashPool  = []string{"1 2", "1,2", "1,", "none", "-1 2", "0 0", "", "1", "1 2 3", "a", "1e400", "5%", "1 , , 2"}
	stylePool = []string{"fill:red", "fill:red;stroke:blue", "fill:red;stroke", ";;", "fill:", ":red", "fill", "stroke-width:2;;fill:none;", "fill:url(#a", "stroke-dasharray:1,", "fill-rule:evenodd", "fill-rule:", "stroke-linejoin:miter;stroke-miterlimit:", "a:b:c", ""}
	cssPool   = []string{"rect{fill:blue}", ".a>path{stroke:red}", "{", "}", "a{b", "#id{fill:#f}", "@media x{rect{}}", "/* */", "rect,circle{fill:red}", "g path{stroke-width:}", ".a.b{}", "*{fill:none}", "rect{fill:red;", "rect{:}", ">{}", "g>{fill:red}", ".{}", "#{}", "rect{fill:rgb(}", ""}
	boxPool   = []string{"0 0 10 10", "0,0,10,10", "0 0 10", "0 0 0 0", "0 0 -1 10", "", " ", "a b c d", "0 0 10 10 5", "1e400 0 1 1", "0 0 10,", "-5 -5 10 10"}
	numAttrs  = []string{"x", "y", "width", "height", "r", "rx", "ry", "cx", "cy", "x1", "y1", "x2", "y2", "stroke-width", "stroke-miterlimit", "stroke-dashoffset", "opacity", "fill-opacity"}
	tags      = []string{"rect", "circle", "ellipse", "line", "polyline", "polygon", "path", "g", "g", "style", "text", "defs", "foo", "svg"}
)

func pick(t *rapid.T, label string, pool []string) string {
	return pool[rapid.IntRange(0, len(pool)-1).Draw(t, label)]
}

func genAttrs(t *rapid.T, tag string) string {
	var sb strings.Builder
	attr := func(k, v string) {
		q := `"`
		if rapid.IntRange(0, 15).Draw(t, "quote") == 0 {
			q = `'`
		}
		fmt.Fprintf(&sb, " %s=%s%s%s", k, q, v, q)
	}
	n := rapid.IntRange(0, 5).Draw(t, "nattr")
	for i := 0; i < n; i++ {
		switch rapid.IntRange(0, 11).Draw(t, "akind") {
		case 0, 1, 2:
			attr(pick(t, "numattr", numAttrs), pick(t, "num", numPool))
		case 3:
			attr("transform", pick(t, "trans", transPool))
		case 4:
			attr("fill", pick(t, "paint", paintPool))
		case 5:
			attr("stroke", pick(t, "paint", paintPool))
		case 6:
			attr("stroke-dasharray", pick(t, "dash", dashPool))
		case 7:
			attr("style", pick(t, "style", stylePool))
		case 8:
			attr([]string{"class", "id"}[rapid.IntRange(0, 1).Draw(t, "ci")], pick(t, "name", []string{"a", "b", "a b", "", " ", "#a", ".a", "a.b"}))
		case 9:
			attr([]string{"fill-rule", "stroke-linecap", "stroke-linejoin"}[rapid.IntRange(0, 2).Draw(t, "enum")], pick(t, "enumv", []string{"evenodd", "nonzero", "round", "butt", "square", "miter", "bevel", "arcs", "miter-clip", "", "x"}))
		case 10:
			attr("viewBox", pick(t, "box", boxPool))
		default:
			attr(pick(t, "anyattr", []string{"points", "d", "foo", "xmlns", "preserveAspectRatio"}), pick(t, "anyval", append(append([]string{}, pointPool...), pathPool...)))
		}
	}
	switch tag {
	case "polyline", "polygon":
		if rapid.IntRange(0, 5).Draw(t, "haspoints") > 0 {
			attr("points", pick(t, "points", pointPool))
		}
	case "path":
		if rapid.IntRange(0, 5).Draw(t, "hasd") > 0 {
			attr("d", pick(t, "d", pathPool))
		}
	}
	return sb.String()
}

func genElem(t *rapid.T, depth int) string {
	tag := pick(t, "tag", tags)
	attrs := genAttrs(t, tag)
	switch {
	case tag == "style":
		var css []string
		for i, n := 0, rapid.IntRange(0, 3).Draw(t, "ncss"); i < n; i++ {
			css = append(css, pick(t, "css", cssPool))
		}
		return "<style" + attrs + ">" + strings.Join(css, " ") + "</style>"
	case tag == "text":
		return "<text" + attrs + ">" + pick(t, "txt", []string{"", "abc", "a<b", "&amp;", "&", "<tspan>x</tspan>"}) + "</text>"
	case (tag == "g" || tag == "defs" || tag == "svg" || tag == "foo") && depth < 3:
		var kids []string
		for i, n := 0, rapid.IntRange(0, 3).Draw(t, "nkids"); i < n; i++ {
			kids = append(kids, genElem(t, depth+1))
		}
		return "<" + tag + attrs + ">" + strings.Join(kids, "") + "</" + tag + ">"
	case rapid.IntRange(0, 7).Draw(t, "selfclose") == 0:
		return "<" + tag + attrs + "></" + tag + ">"
	}
	return "<" + tag + attrs + "/>"
}

func genD(t *rapid.T) DCase {
	var sb strings.Builder
	if rapid.IntRange(0, 9).Draw(t, "prolog") == 0 {
		sb.WriteString(`<?xml version="1.0"?>` + "\n<!-- c -->")
	}
	sb.WriteString("<svg")
	for _, k := range []string{"width", "height"} {
		if rapid.IntRange(0, 3).Draw(t, "has"+k) > 0 {
			fmt.Fprintf(&sb, ` %s="%s"`, k, pick(t, k, numPool))
		}
	}
	if rapid.IntRange(0, 2).Draw(t, "hasbox") > 0 {
		fmt.Fprintf(&sb, ` viewBox="%s"`, pick(t, "vbox", boxPool))
	}
	sb.WriteString(genAttrs(t, "svg"))
	sb.WriteString(">")
	for i, n := 0, rapid.IntRange(0, 5).Draw(t, "nelem"); i < n; i++ {
		sb.WriteString(genElem(t, 0))
	}
	sb.WriteString("</svg>")
	doc := sb.String()
	switch rapid.IntRange(0, 7).Draw(t, "damage") {
	case 0: // truncate
		doc = doc[:rapid.IntRange(0, len(doc)).Draw(t, "cut")]
	case 1: // delete one byte
		i := rapid.IntRange(0, len(doc)-1).Draw(t, "del")
		doc = doc[:i] + doc[i+1:]
	case 2: // double one byte
		i := rapid.IntRange(0, len(doc)-1).Draw(t, "dup")
		doc = doc[:i+1] + doc[i:]
	}
	return DCase{Doc: doc}
}

func checkD(c DCase, r *vf.R) error {
	var cv *canvas.Canvas
	var err, perr error
	vf.Watchdog("parsesvg", c, 20*time.Second, func() {
		perr = vf.Try("ParseSVG", func() { cv, err = canvas.ParseSVG(strings.NewReader(c.Doc)) })
	})
	if perr != nil {
		return vf.Errorf("ParseSVG(%q): %v", c.Doc, perr)
	}
	// ParseSVG returns the canvas built so far together with an error: "a result or an error" is read as at least one
	if cv == nil && err == nil {
		return vf.Errorf("ParseSVG(%q) returned neither a canvas nor an error", c.Doc)
	}
	r.ClassIf(err == nil, "accepted")
	r.ClassIf(err != nil, "rejected")
	shapes := 0
	for _, tag := range []string{"<rect", "<circle", "<ellipse", "<line", "<polyline", "<polygon", "<path"} {
		shapes += strings.Count(c.Doc, tag)
	}
	if shapes > 0 {
		r.NonTrivial()
	}
	return nil
}

func TestParseSVGDoc(t *testing.T) {
	vf.Run(t, vf.Prop[DCase]{Sub: "parsesvg", Gen: genD, Check: checkD, Cases: vf.N(4000, 60000)})
}
