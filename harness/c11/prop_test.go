package c11

import (
	"fmt"
	"math"
	"regexp"
	"strconv"
	"strings"
	"testing"
	"time"

	"github.com/tdewolff/canvas"
	"pgregory.net/rapid"

	"verif/harness/gen"
	"verif/harness/geo"
	"verif/harness/oracle"
	"verif/harness/svgread"
	"verif/harness/vf"
)

func TestMain(m *testing.M) { vf.Main(m, "C11") }

// ---------------- printing round trips ----------------

type RCase struct {
	Path      gen.PathSpec `json:"path"`
	Precision int          `json:"precision"`
	Scale     float64      `json:"scale"`
}

func genR(t *rapid.T) RCase {
	o := gen.DefaultOpts()
	o.Lo, o.Hi = -20, 20
	o.MaxSub, o.MaxSeg = 3, 5
	c := RCase{Path: gen.Path(t, o)}
	c.Precision = []int{8, 8, 4, 12, 6}[rapid.IntRange(0, 4).Draw(t, "prec")]
	c.Scale = []float64{1, 1, 1, 0.001, 1000, 123456.789}[rapid.IntRange(0, 5).Draw(t, "scale")]
	return c
}

func scaled(ps gen.PathSpec, f float64) gen.PathSpec {
	if f == 1 {
		return ps
	}
	var out gen.PathSpec
	for _, c := range ps.Cmds {
		a := append([]float64(nil), c.A...)
		switch c.Op {
		case "A":
			a[0] *= f
			a[1] *= f
			a[5] *= f
			a[6] *= f
		default:
			for i := range a {
				a[i] *= f
			}
		}
		out.Cmds = append(out.Cmds, gen.Cmd{Op: c.Op, A: a})
	}
	return out
}

func maxAbs(segs []oracle.Seg) float64 {
	m := 1e-12
	for _, s := range segs {
		m = math.Max(m, math.Max(math.Abs(s.End().X), math.Abs(s.End().Y)))
		if s.Cmd == oracle.ArcTo {
			m = math.Max(m, s.Args[0])
		} else {
			for _, v := range s.Args {
				m = math.Max(m, math.Abs(v))
			}
		}
	}
	return m
}

// pdfPath interprets PDF path construction operators (ISO 32000-1 table 59): m l c v y h re.
func pdfPath(s string) ([]oracle.Seg, error) {
	b := &geo.Builder{}
	var st []float64
	for _, tok := range strings.Fields(s) {
		if v, err := strconv.ParseFloat(tok, 64); err == nil {
			st = append(st, v)
			continue
		}
		need := map[string]int{"m": 2, "l": 2, "c": 6, "v": 4, "y": 4, "h": 0, "re": 4}
		n, ok := need[tok]
		if !ok {
			return nil, fmt.Errorf("unknown PDF path operator %q", tok)
		}
		if len(st) != n {
			return nil, fmt.Errorf("operator %q with %d operands", tok, len(st))
		}
		switch tok {
		case "m":
			b.MoveTo(st[0], st[1])
		case "l":
			b.ReopenIfClosed()
			b.LineTo(st[0], st[1])
		case "c":
			b.ReopenIfClosed()
			b.CubeTo(st[0], st[1], st[2], st[3], st[4], st[5])
		case "v":
			b.ReopenIfClosed()
			b.CubeTo(b.Cur.X, b.Cur.Y, st[0], st[1], st[2], st[3])
		case "y":
			b.ReopenIfClosed()
			b.CubeTo(st[0], st[1], st[2], st[3], st[2], st[3])
		case "h":
			b.Close()
		case "re":
			b.MoveTo(st[0], st[1])
			b.LineTo(st[0]+st[2], st[1])
			b.LineTo(st[0]+st[2], st[1]+st[3])
			b.LineTo(st[0], st[1]+st[3])
			b.Close()
		}
		st = st[:0]
	}
	if len(st) != 0 {
		return nil, fmt.Errorf("dangling operands %v", st)
	}
	return b.Segs, nil
}

// psPath interprets the PostScript path operators emitted by ToPS: moveto lineto curveto closepath and the
// two prolog procedures ellipse / ellipsen (x y rx ry a0 a1 rot: translate, rotate, scale, 0 0 1 a0 a1 arc[n]).
func psPath(s string) ([]oracle.Seg, error) {
	b := &geo.Builder{}
	var st []float64
	for _, tok := range strings.Fields(s) {
		if v, err := strconv.ParseFloat(tok, 64); err == nil {
			st = append(st, v)
			continue
		}
		need := map[string]int{"moveto": 2, "lineto": 2, "curveto": 6, "closepath": 0, "ellipse": 7, "ellipsen": 7}
		n, ok := need[tok]
		if !ok {
			return nil, fmt.Errorf("unknown PostScript operator %q", tok)
		}
		if len(st) != n {
			return nil, fmt.Errorf("operator %q with %d operands", tok, len(st))
		}
		switch tok {
		case "moveto":
			b.MoveTo(st[0], st[1])
		case "lineto":
			b.ReopenIfClosed()
			b.LineTo(st[0], st[1])
		case "curveto":
			b.ReopenIfClosed()
			b.CubeTo(st[0], st[1], st[2], st[3], st[4], st[5])
		case "closepath":
			b.Close()
		default:
			cx, cy, rx, ry, a0, a1, rot := st[0], st[1], st[2], st[3], st[4], st[5], st[6]
			ccw := tok == "ellipse"
			// PLRM: arc adds ang2 += 360 while ang2 < ang1; arcn subtracts while ang2 > ang1
			if ccw {
				for a1 < a0 {
					a1 += 360
				}
			} else {
				for a1 > a0 {
					a1 -= 360
				}
			}
			pt := func(a float64) oracle.Pt {
				sa, ca := math.Sincos(a * math.Pi / 180)
				sr, cr := math.Sincos(rot * math.Pi / 180)
				x, y := rx*ca, ry*sa
				return oracle.Pt{X: cx + cr*x - sr*y, Y: cy + sr*x + cr*y}
			}
			b.ReopenIfClosed()
			// arc first draws a line from the current point to the start of the arc
			if p0 := pt(a0); b.HasCur && b.Cur.Dist(p0) > 0 {
				b.LineTo(p0.X, p0.Y)
			} else if !b.HasCur {
				b.MoveTo(p0.X, p0.Y)
			}
			n := int(math.Ceil(math.Abs(a1-a0) / 90))
			for k := 1; k <= n; k++ {
				e := pt(a0 + (a1-a0)*float64(k)/float64(n))
				b.ArcTo(rx, ry, rot, false, ccw, e.X, e.Y)
			}
		}
		st = st[:0]
	}
	if len(st) != 0 {
		return nil, fmt.Errorf("dangling operands %v", st)
	}
	return b.Segs, nil
}

func checkR(c RCase, r *vf.R) error {
	old := canvas.Precision
	canvas.Precision = c.Precision
	defer func() { canvas.Precision = old }()
	p := scaled(c.Path, c.Scale).Build()
	if p.Empty() {
		return nil
	}
	segs, err := oracle.Decode(p.Data())
	if err != nil {
		return vf.Errorf("not decodable: %v", err)
	}
	size := geo.Size(segs, 1e-9)
	mabs := maxAbs(segs)
	r.Class(fmt.Sprintf("precision=%d", c.Precision))
	// 1. String() round-trips exactly (%g is the shortest representation that parses back)
	var s1 string
	var q *canvas.Path
	var perr error
	if err := vf.Try("String/ParseSVGPath", func() { s1 = p.String(); q, perr = canvas.ParseSVGPath(s1) }); err != nil {
		return err
	}
	if perr != nil {
		return vf.Errorf("ParseSVGPath(p.String()) fails: %v (%q)", perr, s1)
	}
	qs, err := oracle.Decode(q.Data())
	if err != nil {
		return vf.Errorf("parsed path not decodable: %v", err)
	}
	if len(qs) != len(segs) {
		return vf.Errorf("ParseSVGPath(p.String()) has %d commands, p has %d: %q -> %v", len(qs), len(segs), s1, q)
	}
	for i := range segs {
		if segs[i].Cmd != qs[i].Cmd {
			return vf.Errorf("ParseSVGPath(p.String()): command %d is %v, was %v (%q)", i, qs[i].Cmd, segs[i].Cmd, s1)
		}
		for k := range segs[i].Args {
			a, b := segs[i].Args[k], qs[i].Args[k]
			tol := 8e-16 * math.Abs(a) // the library's own float parser is correct to a few ulp
			if segs[i].Cmd == oracle.ArcTo && k <= 2 {
				tol = 1e-12 * (1 + math.Abs(a)) // rotation goes through degrees; radii may be re-corrected
			}
			if math.Abs(a-b) > tol {
				return vf.Errorf("ParseSVGPath(p.String()): value %d of command %d is %v, was %v (%q)", k, i, b, a, s1)
			}
		}
	}
	// 2. ToSVG(): same geometry to the output precision, judged by an independent SVG path data reader
	var s2 string
	if err := vf.Try("ToSVG", func() { s2 = p.ToSVG() }); err != nil {
		return err
	}
	ref, rerr := svgread.ParsePathData(s2)
	if rerr != nil {
		return vf.Errorf("ToSVG output %q is not valid SVG path data: %v", s2, rerr)
	}
	rel := 5 * math.Pow(10, float64(-c.Precision)) // relative rounding error of one printed number is 0.5e-(P-1)
	// sensitivity of arcs: a change of the rotation by d radians moves points by up to rmax*d
	rmax := 0.0
	for _, s := range segs {
		if s.Cmd == oracle.ArcTo {
			rmax = math.Max(rmax, s.Args[0])
		}
	}
	tolSVG := 6*rel*mabs + 8*rel*rmax*10 + 1e-12
	// a short chord fixes the direction in which the centre lies only as well as its end points are printed: moving an
	// end point by d turns the chord by d/chord and moves the centre of an arc of radius r by about r d/chord
	for _, sg := range segs {
		if sg.Cmd == oracle.ArcTo {
			if ch := sg.P0.Dist(sg.End()); ch > 0 && ch < 2*sg.Args[0] {
				// (for an ellipse the centre is the more sensitive the more eccentric it is)
				cond := 2 * 6 * rel * mabs * sg.Args[0] / ch * sg.Args[0] / math.Max(sg.Args[1], 1e-300)
				if cond > 0.05*mabs {
					// the printed end points leave the arc's centre undetermined to more than a twentieth of the drawing
					r.Class("arc-ill-conditioned-at-printed-resolution(skipped)")
					return nil
				}
				tolSVG += cond
			}
		}
	}
	// an arc whose end points are closer than the printed resolution is a full ellipse or nothing depending on how the
	// two points round (SVG: identical end points omit the segment): its meaning is not stable under printing
	for _, sg := range segs {
		if sg.Cmd == oracle.ArcTo && sg.P0.Dist(sg.End()) <= 4*rel*mabs {
			r.Class("arc-end-points-within-printed-resolution(skipped)")
			return nil
		}
	}
	// arcs whose radii barely reach their chord: the centre moves with the square root of a perturbation of the
	// radii (inherent to the end-point parametrisation, not a printing error)
	half := 0.0
	if nearHalfEllipse(segs) {
		half = 1
	}
	tolSVG += half * 6 * math.Sqrt(rel) * rmax
	if strings.ContainsAny(s2, "HV") || strings.Contains(s2, "A") {
		r.NonTrivial()
	}
	if err := geo.SameGeometry(fmt.Sprintf("ToSVG() = %q (precision %d)", s2, c.Precision), ref, segs, tolSVG); err != nil {
		return vf.Errorf("%v", err)
	}
	// and ParseSVGPath must read its own ToSVG output like the independent reader
	var q2 *canvas.Path
	if err := vf.Try("ParseSVGPath(ToSVG)", func() { q2, perr = canvas.ParseSVGPath(s2) }); err != nil {
		return err
	}
	if perr != nil {
		return vf.Errorf("ParseSVGPath(p.ToSVG()) fails: %v (%q)", perr, s2)
	}
	q2s, err := oracle.Decode(q2.Data())
	if err != nil {
		return vf.Errorf("parsed path not decodable: %v", err)
	}
	if err := geo.SameGeometry(fmt.Sprintf("ParseSVGPath(ToSVG() = %q) vs independent reader", s2), q2s, ref, 1e-9*(size+mabs)+half*1e-6*rmax+1e-12); err != nil {
		return vf.Errorf("%v", err)
	}
	// 3. ToPDF: operators trace the path with arcs replaced by cubics
	var s3 string
	if err := vf.Try("ToPDF", func() { s3 = p.ToPDF() }); err != nil {
		return err
	}
	pdfSegs, perr2 := pdfPath(s3)
	if perr2 != nil {
		return vf.Errorf("ToPDF output %q: %v", s3, perr2)
	}
	abs := 2 * math.Pow(10, float64(-c.Precision)) // dec prints Precision decimals
	if c.Precision >= 8 || c.Scale >= 1 {
		if err := geo.SameGeometry(fmt.Sprintf("ToPDF() = %q", s3), pdfSegs, segs, 8*abs+6*rel*mabs+3e-3*rmax+1e-9*mabs); err != nil {
			return vf.Errorf("%v", err)
		}
	}
	// 4. ToPS
	var s4 string
	if err := vf.Try("ToPS", func() { s4 = p.ToPS() }); err != nil {
		return err
	}
	psSegs, perr3 := psPath(s4)
	if perr3 != nil {
		return vf.Errorf("ToPS output %q: %v", s4, perr3)
	}
	if c.Precision >= 8 || c.Scale >= 1 {
		// angles are printed in degrees with Precision decimals: error rmax * 1e-P * pi/180
		if err := geo.SameGeometry(fmt.Sprintf("ToPS() = %q", s4), psSegs, segs, 8*abs+6*rel*mabs+(4*abs+60*rel)*rmax+half*6*math.Sqrt(rel)*rmax+1e-9*mabs); err != nil {
			return vf.Errorf("%v", err)
		}
	}
	return nil
}

// nearHalfEllipse: an arc whose radii were (nearly) scaled up to reach its chord.
func nearHalfEllipse(segs []oracle.Seg) bool {
	for _, s := range segs {
		if s.Cmd != oracle.ArcTo {
			continue
		}
		rx, ry, phi := s.Args[0], s.Args[1], s.Args[2]
		sp, cp := math.Sincos(phi)
		dx, dy := (s.P0.X-s.End().X)/2, (s.P0.Y-s.End().Y)/2
		x1, y1 := cp*dx+sp*dy, -sp*dx+cp*dy
		if l := x1*x1/(rx*rx) + y1*y1/(ry*ry); l > 1-1e-3 {
			return true
		}
	}
	return false
}

func TestRoundTrip(t *testing.T) {
	vf.Run(t, vf.Prop[RCase]{Sub: "roundtrip", Gen: genR, Check: checkR, Cases: vf.N(1500, 8000)})
}

// ---------------- parser: result xor error, never a panic, agreement with the reference on valid data ----------------

type PCase struct {
	S string `json:"s"`
}

func num(t *rapid.T) string {
	switch rapid.IntRange(0, 9).Draw(t, "numkind") {
	case 0:
		return strconv.Itoa(rapid.IntRange(-20, 20).Draw(t, "i"))
	case 1:
		return fmt.Sprintf("%g", float64(rapid.IntRange(-400, 400).Draw(t, "q"))/16)
	case 2:
		return fmt.Sprintf(".%d", rapid.IntRange(0, 99).Draw(t, "frac"))
	case 3:
		return fmt.Sprintf("%de%d", rapid.IntRange(-9, 9).Draw(t, "m"), rapid.IntRange(-3, 3).Draw(t, "e"))
	case 4:
		return fmt.Sprintf("-%d.", rapid.IntRange(0, 9).Draw(t, "d"))
	case 5:
		return fmt.Sprintf("+%g", float64(rapid.IntRange(0, 99).Draw(t, "p"))/8)
	default:
		return fmt.Sprintf("%g", float64(rapid.IntRange(-160, 160).Draw(t, "r"))/8)
	}
}

func sep(t *rapid.T) string {
	return []string{" ", ",", " , ", "\n", "\t", "  "}[rapid.IntRange(0, 5).Draw(t, "sep")]
}

func genValid(t *rapid.T) string {
	var sb strings.Builder
	n := rapid.IntRange(1, 8).Draw(t, "ncmd")
	sb.WriteString([]string{"M", "m", " M", "M "}[rapid.IntRange(0, 3).Draw(t, "m")])
	sb.WriteString(num(t) + sep(t) + num(t))
	cnt := map[byte]int{'M': 2, 'L': 2, 'H': 1, 'V': 1, 'C': 6, 'S': 4, 'Q': 4, 'T': 2, 'A': 7, 'Z': 0}
	for i := 0; i < n; i++ {
		c := "MLHVCSQTAZLLCA"[rapid.IntRange(0, 13).Draw(t, "cmd")]
		name := string(c)
		if rapid.Bool().Draw(t, "rel") {
			name = strings.ToLower(name)
		}
		if rapid.IntRange(0, 3).Draw(t, "sp") == 0 {
			sb.WriteString(" ")
		}
		sb.WriteString(name)
		reps := 1
		if c != 'Z' && rapid.IntRange(0, 4).Draw(t, "rep") == 0 {
			reps = rapid.IntRange(2, 3).Draw(t, "reps")
		}
		for rp := 0; rp < reps; rp++ {
			for k := 0; k < cnt[c]; k++ {
				var tok string
				if c == 'A' && (k == 3 || k == 4) {
					tok = strconv.Itoa(rapid.IntRange(0, 1).Draw(t, "flag"))
				} else if c == 'A' && k < 2 {
					tok = fmt.Sprintf("%g", float64(rapid.IntRange(0, 80).Draw(t, "rad"))/8)
				} else {
					tok = num(t)
				}
				if k > 0 || rp > 0 {
					// separators may be omitted where the grammar allows: before a sign or a leading dot, after a flag
					if (tok[0] == '-' || tok[0] == '+') && rapid.Bool().Draw(t, "nosep") {
					} else if c == 'A' && (k == 4 || k == 5) && rapid.Bool().Draw(t, "packflag") {
					} else {
						sb.WriteString(sep(t))
					}
				} else if rapid.IntRange(0, 2).Draw(t, "sp2") == 0 {
					sb.WriteString(" ")
				}
				sb.WriteString(tok)
			}
		}
	}
	return sb.String()
}

func genP(t *rapid.T) PCase {
	s := genValid(t)
	switch rapid.IntRange(0, 9).Draw(t, "mut") {
	case 0: // truncate
		if len(s) > 0 {
			s = s[:rapid.IntRange(0, len(s)-1).Draw(t, "cut")]
		}
	case 1: // delete a byte
		if len(s) > 1 {
			i := rapid.IntRange(0, len(s)-1).Draw(t, "del")
			s = s[:i] + s[i+1:]
		}
	case 2: // insert a hostile token
		tok := []string{".", "-", "e", "+", "..", "1e400", "-.e1", "NaN", "Inf", "0x10", "#", "é", "\x00", "A", "a5 5 0 ", "M", ",", " ", "1e", "--1", strings.Repeat("9", 400), strings.Repeat("1 ", 50), " 2e37 ", " 123456789e30 ", " 9e36 "}[rapid.IntRange(0, 24).Draw(t, "tok")]
		i := rapid.IntRange(0, len(s)).Draw(t, "ins")
		s = s[:i] + tok + s[i:]
	case 3: // whitespace / commas only
		s = strings.Repeat([]string{" ", ",", "\n", "\t ", " ,"}[rapid.IntRange(0, 4).Draw(t, "ws")], rapid.IntRange(0, 5).Draw(t, "nws"))
	case 4: // arbitrary bytes
		b := rapid.SliceOfN(rapid.Byte(), 0, 24).Draw(t, "bytes")
		s = string(b)
	}
	return PCase{S: s}
}

func checkP(c PCase, r *vf.R) error {
	var p *canvas.Path
	var perr error
	var panicErr error
	vf.Watchdog("parse", c, 20*time.Second, func() {
		panicErr = vf.Try("ParseSVGPath", func() { p, perr = canvas.ParseSVGPath(c.S) })
	})
	if panicErr != nil {
		return vf.Errorf("ParseSVGPath(%q): %v", c.S, panicErr)
	}
	if (p == nil) == (perr == nil) {
		return vf.Errorf("ParseSVGPath(%q) returned path=%v and error=%v (want exactly one)", c.S, p, perr)
	}
	if bigExp.MatchString(c.S) {
		r.Class("huge-exponent(no comparison)")
		return nil
	}
	ref, rerr := svgread.ParsePathData(c.S)
	r.ClassIf(rerr == nil, "valid-by-reference")
	r.ClassIf(perr == nil, "accepted")
	if rerr == nil && len(strings.TrimSpace(c.S)) > 0 {
		for _, s := range ref {
			// a rotation of 1e10 degrees and more has no digits left after reduction to one turn
			if s.Cmd == oracle.ArcTo && math.Abs(s.Args[2]) > 1e6 {
				r.Class("huge-arc-rotation(no comparison)")
				return nil
			}
		}
		for _, s := range ref {
			for _, v := range s.Args {
				if math.IsInf(v, 0) || math.IsNaN(v) {
					return nil
				}
			}
		}
		r.NonTrivial()
		if perr != nil {
			return vf.Errorf("ParseSVGPath(%q) rejects valid SVG path data: %v", c.S, perr)
		}
		got, err := oracle.Decode(p.Data())
		if err != nil {
			return vf.Errorf("ParseSVGPath(%q): result not decodable: %v", c.S, err)
		}
		size := geo.Size(ref, 1e-6)
		ptol := 1e-8*(size+maxAbs(ref)) + 1e-10
		if nearHalfEllipse(ref) {
			ptol += 1e-6 * maxAbs(ref)
		}
		for _, s := range ref {
			if s.Cmd == oracle.ArcTo {
				// strongly eccentric arcs with corrected radii are ill-conditioned in the centre parametrisation
				a := s.ArcOf()
				ptol += 1e-8 * math.Max(a.Rx, a.Ry) * math.Max(a.Rx, a.Ry) / math.Max(math.Min(a.Rx, a.Ry), 1e-300) * 1e-3
			}
		}
		if err := geo.SameGeometry(fmt.Sprintf("ParseSVGPath(%q)", c.S), got, ref, ptol); err != nil {
			if r.Excluded("F11c", emptyClosed.MatchString(c.S) || emptyClosedSubpath(ref)) {
				return nil
			}
			// F11d: numbers written with 20 and more digits are misread by the number parser of the dependency
			if r.Excluded("F11d", longMantissa(c.S)) {
				return nil
			}
			// F11h: the same parser scales numbers between 1e37 and about 1e53 twice (2e37 is read as 2e52)
			if r.Excluded("F11h", doubleScaled(c.S)) {
				return nil
			}
			return vf.Errorf("%v", err)
		}
	}
	return nil
}

var (
	bigExp = regexp.MustCompile(`[eE][+-]?[0-9]{3,}`)
	// known finding F11d: a mantissa of 20 or more digits (beyond uint64) is misread: 18446744073709551616 as 0, 10^42
	// written out as 10^43 (strconv.ParseFloat of github.com/tdewolff/parse/v2, a dependency)
	// (class: a number whose mantissa, without leading zeros and the decimal point, has 20 or more digits)
	// known finding F11c: "M x y Z" followed by a drawing command: the MoveTo of the empty subpath is removed
	// and the next command starts at the origin instead of (x,y) (behaviour of Close pinned by TestPathCommands)
	emptyClosed = regexp.MustCompile(`[Mm][^A-DF-Za-df-z]*[Zz][\s,]*[^Mm\s,]`)
)

// longMantissa reports whether s contains a number written with 20 or more significant digits.
func longMantissa(s string) bool {
	n, dot, lead := 0, false, true
	for i := 0; i < len(s); i++ {
		c := s[i]
		switch {
		case c >= '0' && c <= '9':
			if c != '0' || !lead {
				lead = false
				n++
				if n >= 20 {
					return true
				}
			}
		case c == '.' && !dot:
			dot = true
		default:
			n, dot, lead = 0, false, true
			if c == '.' {
				dot = true
			}
		}
	}
	return false
}

// doubleScaled reports whether s contains a number m x 10^e (m the digits as an integer of at most 19 digits, e the
// written exponent minus the number of fraction digits) with 22 < e <= 37 and m x 10^(e-22) > 1e15: known finding
// F11h, strconv.ParseFloat of github.com/tdewolff/parse/v2 multiplies such a number by 10^(e-22) for the exact fast
// path, finds it too large for that path and then applies the whole exponent once more ("2e37" is read as 2e52).
func doubleScaled(s string) bool {
	for i := 0; i < len(s); {
		c := s[i]
		if !(c >= '0' && c <= '9' || c == '.') {
			i++
			continue
		}
		m, frac, digits, dot := 0.0, 0, 0, false
		for ; i < len(s); i++ {
			c = s[i]
			if c >= '0' && c <= '9' {
				m = m*10 + float64(c-'0')
				digits++
				if dot {
					frac++
				}
			} else if c == '.' && !dot {
				dot = true
			} else {
				break
			}
		}
		e := 0
		if digits > 0 && i+1 < len(s) && (s[i] == 'e' || s[i] == 'E') {
			j, neg := i+1, false
			if s[j] == '+' || s[j] == '-' {
				neg = s[j] == '-'
				j++
			}
			k := j
			for ; k < len(s) && s[k] >= '0' && s[k] <= '9' && k-j < 4; k++ {
				e = e*10 + int(s[k]-'0')
			}
			if k > j {
				if neg {
					e = -e
				}
				for i = k; i < len(s) && s[i] >= '0' && s[i] <= '9'; i++ {
				}
			} else {
				e = 0
			}
		}
		if x := e - frac; digits > 0 && 22 < x && x <= 37 && m*math.Pow10(x-22) > 1e15 {
			return true
		}
	}
	return false
}

// emptyClosedSubpath: a closepath on a subpath that draws nothing, followed by more path data.
func emptyClosedSubpath(ref []oracle.Seg) bool {
	l := 0.0
	for i, s := range ref {
		switch s.Cmd {
		case oracle.MoveTo:
			l = 0
		case oracle.Close:
			if l+s.P0.Dist(s.End()) == 0 && i+1 < len(ref) {
				return true
			}
			l = 0
		default:
			l += oracle.SegLength(s, 8)
		}
	}
	return false
}

func TestParse(t *testing.T) {
	vf.Run(t, vf.Prop[PCase]{Sub: "parse", Gen: genP, Check: checkP, Cases: vf.N(6000, 30000)})
}
