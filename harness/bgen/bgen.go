// Package bgen generates operands for the boolean-operation properties (C01, C02): closed multi-contour
// paths with the degenerate configurations named in the property statements built in by construction.
package bgen

import (
	"math"

	"pgregory.net/rapid"

	"verif/harness/gen"
)

func lat(t *rapid.T, label string) float64 { return float64(gen.Uniform(t, label, 0, 40)) / 4 } // 0..10 step 1/4

func coord(t *rapid.T, label string, smooth bool) float64 {
	if smooth {
		return gen.SmoothCoord(t, label, 0, 10)
	}
	switch rapid.IntRange(0, 9).Draw(t, label+"m") {
	case 0:
		return gen.SmoothCoord(t, label, 0, 10)
	case 1: // closer than the snap grid to a lattice value
		return lat(t, label) + float64(rapid.IntRange(-4, 4).Draw(t, label+"e"))*2.5e-9
	default:
		return lat(t, label)
	}
}

// Contour draws one closed subpath.
func Contour(t *rapid.T, curved, smooth bool) []gen.Cmd {
	kind := rapid.IntRange(0, 9).Draw(t, "ckind")
	var cmds []gen.Cmd
	switch {
	case kind <= 1: // axis-aligned rectangle on the lattice, either orientation
		x0, y0 := lat(t, "x0"), lat(t, "y0")
		w, h := float64(gen.Uniform(t, "w", 1, 24))/4, float64(gen.Uniform(t, "h", 1, 24))/4
		pts := [][2]float64{{x0, y0}, {x0 + w, y0}, {x0 + w, y0 + h}, {x0, y0 + h}}
		if rapid.Bool().Draw(t, "cw") {
			pts[1], pts[3] = pts[3], pts[1]
		}
		cmds = append(cmds, gen.Cmd{Op: "M", A: []float64{pts[0][0], pts[0][1]}})
		for _, p := range pts[1:] {
			cmds = append(cmds, gen.Cmd{Op: "L", A: []float64{p[0], p[1]}})
		}
	case kind == 2: // zero-area spike
		cmds = append(cmds, gen.Cmd{Op: "M", A: []float64{coord(t, "x", smooth), coord(t, "y", smooth)}}, gen.Cmd{Op: "L", A: []float64{coord(t, "x", smooth), coord(t, "y", smooth)}})
	case kind == 3: // star polygon (self-intersecting)
		n := rapid.SampledFrom([]int{5, 7}).Draw(t, "nstar")
		cx, cy, r := lat(t, "cx"), lat(t, "cy"), float64(gen.Uniform(t, "r", 4, 20))/4
		rot := float64(gen.Uniform(t, "rot", 0, 359))
		for i := 0; i < n; i++ {
			a := (rot + float64(i*2)*360/float64(n)) * math.Pi / 180
			op := "L"
			if i == 0 {
				op = "M"
			}
			cmds = append(cmds, gen.Cmd{Op: op, A: []float64{cx + r*math.Cos(a), cy + r*math.Sin(a)}})
		}
	default: // general polygon, optionally with curved edges
		n := rapid.IntRange(3, 7).Draw(t, "nv")
		cmds = append(cmds, gen.Cmd{Op: "M", A: []float64{coord(t, "x", smooth), coord(t, "y", smooth)}})
		for i := 1; i < n; i++ {
			if curved && rapid.IntRange(0, 2).Draw(t, "curve") == 0 {
				switch rapid.IntRange(0, 2).Draw(t, "ck") {
				case 0:
					cmds = append(cmds, gen.Cmd{Op: "Q", A: []float64{coord(t, "x", true), coord(t, "y", true), coord(t, "x", smooth), coord(t, "y", smooth)}})
				case 1:
					cmds = append(cmds, gen.Cmd{Op: "C", A: []float64{coord(t, "x", true), coord(t, "y", true), coord(t, "x", true), coord(t, "y", true), coord(t, "x", smooth), coord(t, "y", smooth)}})
				default:
					r := float64(gen.Uniform(t, "rad", 8, 40)) / 4
					cmds = append(cmds, gen.Cmd{Op: "A", A: []float64{r, r * float64(gen.Uniform(t, "ryf", 5, 10)) / 10, float64(gen.Uniform(t, "arot", 0, 17)) * 10, float64(rapid.IntRange(0, 1).Draw(t, "l")), float64(rapid.IntRange(0, 1).Draw(t, "s")), coord(t, "x", smooth), coord(t, "y", smooth)}})
				}
			} else {
				cmds = append(cmds, gen.Cmd{Op: "L", A: []float64{coord(t, "x", smooth), coord(t, "y", smooth)}})
			}
		}
	}
	return append(cmds, gen.Cmd{Op: "z"})
}

func reverseFlat(c []gen.Cmd) []gen.Cmd {
	// only for flat contours: reverse the vertex order
	var pts [][]float64
	for _, x := range c {
		if x.Op == "M" || x.Op == "L" {
			pts = append(pts, x.A)
		} else if x.Op != "z" {
			return c
		}
	}
	var out []gen.Cmd
	for i := len(pts) - 1; i >= 0; i-- {
		op := "L"
		if i == len(pts)-1 {
			op = "M"
		}
		out = append(out, gen.Cmd{Op: op, A: pts[i]})
	}
	return append(out, gen.Cmd{Op: "z"})
}

// Operand draws a closed path of 1-4 contours; later contours are sometimes copies (coincident), reversed
// copies or holes of earlier ones.
func Operand(t *rapid.T, curved, smooth bool) gen.PathSpec {
	var ps gen.PathSpec
	var contours [][]gen.Cmd
	n := rapid.IntRange(1, 4).Draw(t, "ncontours")
	if rapid.IntRange(0, 2).Draw(t, "one") == 0 {
		n = 1
	}
	for i := 0; i < n; i++ {
		var c []gen.Cmd
		k := rapid.IntRange(0, 9).Draw(t, "rel")
		switch {
		case i > 0 && k == 0:
			c = contours[rapid.IntRange(0, i-1).Draw(t, "dup")]
		case i > 0 && k == 1:
			c = reverseFlat(contours[rapid.IntRange(0, i-1).Draw(t, "rev")])
		default:
			c = Contour(t, curved, smooth)
		}
		contours = append(contours, c)
		ps.Cmds = append(ps.Cmds, c...)
	}
	return ps
}

// Pair draws two operands; sometimes Q is P, P reversed or a translated copy sharing edges.
func Pair(t *rapid.T, curved, smooth bool) (gen.PathSpec, gen.PathSpec) {
	p := Operand(t, curved, smooth)
	switch rapid.IntRange(0, 11).Draw(t, "pairkind") {
	case 0:
		return p, p
	case 1:
		return p, gen.PathSpec{Cmds: reverseFlat(p.Cmds)}
	case 2: // lattice translation of P: many collinear overlaps and shared vertices
		dx, dy := float64(rapid.IntRange(-8, 8).Draw(t, "tdx"))/4, float64(rapid.IntRange(-8, 8).Draw(t, "tdy"))/4
		var q gen.PathSpec
		for _, c := range p.Cmds {
			a := append([]float64(nil), c.A...)
			switch c.Op {
			case "A":
				a[5] += dx
				a[6] += dy
			default:
				for i := 0; i+1 < len(a); i += 2 {
					a[i] += dx
					a[i+1] += dy
				}
			}
			q.Cmds = append(q.Cmds, gen.Cmd{Op: c.Op, A: a})
		}
		return p, q
	case 3: // far away: bounding boxes do not touch
		q := Operand(t, curved, smooth)
		var qq gen.PathSpec
		for _, c := range q.Cmds {
			a := append([]float64(nil), c.A...)
			switch c.Op {
			case "A":
				a[5] += 30
			default:
				for i := 0; i+1 < len(a); i += 2 {
					a[i] += 30
				}
			}
			qq.Cmds = append(qq.Cmds, gen.Cmd{Op: c.Op, A: a})
		}
		return p, qq
	}
	return p, Operand(t, curved, smooth)
}
