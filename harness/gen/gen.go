// Package gen holds the rapid generators shared by the property packages. Every generated object is
// a plain JSON-serialisable spec (so that shrunk cases can be written to replay files) plus a Build
// function that realises it through canvas' public API.
package gen

import (
	"fmt"
	"math"
	"strings"

	"github.com/tdewolff/canvas"
	"pgregory.net/rapid"
)

// Cmd is one builder call. Op: M L Q C A z ; A = rx ry rotDeg large sweep x y (flags as 0/1).
type Cmd struct {
	Op string    `json:"op"`
	A  []float64 `json:"a,omitempty"`
}

// PathSpec is a list of builder calls.
type PathSpec struct {
	Cmds []Cmd `json:"cmds"`
}

func (ps PathSpec) String() string {
	var sb strings.Builder
	for _, c := range ps.Cmds {
		sb.WriteString(c.Op)
		for i, a := range c.A {
			if i > 0 {
				sb.WriteByte(' ')
			}
			fmt.Fprintf(&sb, "%g", a)
		}
	}
	return sb.String()
}

// Build realises the spec through the builder API.
func (ps PathSpec) Build() *canvas.Path {
	p := &canvas.Path{}
	ps.BuildOn(p)
	return p
}

// BuildOn appends the spec's calls to p.
func (ps PathSpec) BuildOn(p *canvas.Path) {
	for _, c := range ps.Cmds {
		a := c.A
		switch c.Op {
		case "M":
			p.MoveTo(a[0], a[1])
		case "L":
			p.LineTo(a[0], a[1])
		case "Q":
			p.QuadTo(a[0], a[1], a[2], a[3])
		case "C":
			p.CubeTo(a[0], a[1], a[2], a[3], a[4], a[5])
		case "A":
			p.ArcTo(a[0], a[1], a[2], a[3] != 0, a[4] != 0, a[5], a[6])
		case "z":
			p.Close()
		}
	}
}

// HasOp reports whether the spec contains one of ops.
func (ps PathSpec) HasOp(ops string) bool {
	for _, c := range ps.Cmds {
		if strings.Contains(ops, c.Op) {
			return true
		}
	}
	return false
}

// Uniform draws an integer uniformly from [lo,hi]. rapid's IntRange is deliberately biased towards small
// magnitudes and range ends, which makes generated geometry cluster around the origin; Uniform assembles
// the value from single unbiased bits instead (still shrinks towards lo).
func Uniform(t *rapid.T, label string, lo, hi int) int {
	n := uint64(hi - lo + 1)
	bits := 0
	for (uint64(1) << bits) < n {
		bits++
	}
	bits += 6 // extra bits make the modulo bias negligible
	var v uint64
	for i := 0; i < bits; i++ {
		v <<= 1
		if rapid.Bool().Draw(t, label) {
			v |= 1
		}
	}
	return lo + int(v%n)
}

// index draws a lattice index: half of the time uniformly, half of the time with rapid's small/edge bias
// (the latter produces the coincidences: repeated points, zero coordinates, range ends).
func index(t *rapid.T, label string, lo, hi int) int {
	if rapid.Bool().Draw(t, label+"u") {
		return Uniform(t, label, lo, hi)
	}
	return rapid.IntRange(lo, hi).Draw(t, label)
}

// Coord draws a coordinate from the mixture lattice(k/8) / continuous / near-lattice in [lo,hi].
func Coord(t *rapid.T, label string, lo, hi float64) float64 {
	mode := Uniform(t, label+"mode", 0, 9)
	k := index(t, label, int(math.Ceil(lo*8)), int(math.Floor(hi*8)))
	v := float64(k) / 8
	switch {
	case mode <= 5: // lattice
		return v
	case mode <= 7: // continuous: lattice + fraction with 20 random bits
		f := float64(Uniform(t, label+"f", 0, 1<<20-1)) / float64(1<<20) / 8
		if v+f > hi {
			return v
		}
		return v + f
	default: // near lattice: ± 1e-10 … 1e-6
		e := rapid.IntRange(-10, -6).Draw(t, label+"e")
		m := float64(rapid.IntRange(-9, 9).Draw(t, label+"m"))
		return v + m*math.Pow(10, float64(e))
	}
}

// LatticeCoord draws k/8 only.
func LatticeCoord(t *rapid.T, label string, lo, hi float64) float64 {
	return float64(index(t, label, int(math.Ceil(lo*8)), int(math.Floor(hi*8)))) / 8
}

// SmoothCoord draws a continuous coordinate (lattice + 20 random bits), never "near".
func SmoothCoord(t *rapid.T, label string, lo, hi float64) float64 {
	k := index(t, label, int(math.Ceil(lo*8)), int(math.Floor(hi*8))-1)
	f := float64(Uniform(t, label+"f", 0, 1<<20-1)) / float64(1<<20) / 8
	return float64(k)/8 + f
}

// Opts configures Path.
type Opts struct {
	MinSub, MaxSub   int
	MinSeg, MaxSeg   int
	Ops              string  // subset of "LQCA"
	Closed           int     // 0 = random, 1 = always closed, -1 = always open
	Lo, Hi           float64 // coordinate range
	LatticeOnly      bool
	Smooth           bool // continuous coordinates only
}

// DefaultOpts: 1–3 subpaths, 1–5 segments, all segment types, coordinates in [0,20].
func DefaultOpts() Opts {
	return Opts{MinSub: 1, MaxSub: 3, MinSeg: 1, MaxSeg: 5, Ops: "LQCA", Lo: 0, Hi: 20}
}

func (o Opts) coord(t *rapid.T, label string) float64 {
	if o.LatticeOnly {
		return LatticeCoord(t, label, o.Lo, o.Hi)
	}
	if o.Smooth {
		return SmoothCoord(t, label, o.Lo, o.Hi)
	}
	return Coord(t, label, o.Lo, o.Hi)
}

// Path draws a path spec.
func Path(t *rapid.T, o Opts) PathSpec {
	var ps PathSpec
	nsub := rapid.IntRange(o.MinSub, o.MaxSub).Draw(t, "nsub")
	for s := 0; s < nsub; s++ {
		ps.Cmds = append(ps.Cmds, Cmd{"M", []float64{o.coord(t, "x"), o.coord(t, "y")}})
		n := rapid.IntRange(o.MinSeg, o.MaxSeg).Draw(t, "nseg")
		for i := 0; i < n; i++ {
			ps.Cmds = append(ps.Cmds, Segment(t, o))
		}
		closed := o.Closed > 0 || (o.Closed == 0 && rapid.Bool().Draw(t, "close"))
		if closed {
			ps.Cmds = append(ps.Cmds, Cmd{Op: "z"})
		}
	}
	return ps
}

// Segment draws one segment command.
func Segment(t *rapid.T, o Opts) Cmd {
	op := string(o.Ops[rapid.IntRange(0, len(o.Ops)-1).Draw(t, "op")])
	switch op {
	case "L":
		return Cmd{"L", []float64{o.coord(t, "x"), o.coord(t, "y")}}
	case "Q":
		return Cmd{"Q", []float64{o.coord(t, "x"), o.coord(t, "y"), o.coord(t, "x"), o.coord(t, "y")}}
	case "C":
		return Cmd{"C", []float64{o.coord(t, "x"), o.coord(t, "y"), o.coord(t, "x"), o.coord(t, "y"), o.coord(t, "x"), o.coord(t, "y")}}
	default:
		rx := float64(rapid.IntRange(1, 160).Draw(t, "rx")) / 8
		ry := float64(rapid.IntRange(1, 160).Draw(t, "ry")) / 8
		if rapid.IntRange(0, 3).Draw(t, "circ") == 0 {
			ry = rx
		}
		var rot float64
		switch rapid.IntRange(0, 3).Draw(t, "rotmode") {
		case 0:
			rot = 0
		case 1:
			rot = float64(rapid.IntRange(-8, 8).Draw(t, "rot45")) * 45
		default:
			rot = float64(rapid.IntRange(-3600, 3600).Draw(t, "rot")) / 10
		}
		l, s := 0.0, 0.0
		if rapid.Bool().Draw(t, "large") {
			l = 1
		}
		if rapid.Bool().Draw(t, "sweep") {
			s = 1
		}
		return Cmd{"A", []float64{rx, ry, rot, l, s, o.coord(t, "x"), o.coord(t, "y")}}
	}
}

// MatSpec is a JSON-able affine matrix [a b c; d e f] (row-major 2x3).
type MatSpec [6]float64

// Canvas converts to a canvas.Matrix.
func (m MatSpec) Canvas() canvas.Matrix {
	return canvas.Matrix{{m[0], m[1], m[2]}, {m[3], m[4], m[5]}}
}

// FromCanvas converts a canvas.Matrix to a spec.
func FromCanvas(m canvas.Matrix) MatSpec {
	return MatSpec{m[0][0], m[0][1], m[0][2], m[1][0], m[1][1], m[1][2]}
}

func mul(m, n MatSpec) MatSpec {
	return MatSpec{
		m[0]*n[0] + m[1]*n[3], m[0]*n[1] + m[1]*n[4], m[0]*n[2] + m[1]*n[5] + m[2],
		m[3]*n[0] + m[4]*n[3], m[3]*n[1] + m[4]*n[4], m[3]*n[2] + m[4]*n[5] + m[5],
	}
}

// Matrix draws an invertible affine matrix as a product of 1–4 elementary transforms
// (computed here with plain float arithmetic, not with canvas.Matrix).
func Matrix(t *rapid.T, similarityOnly bool) MatSpec {
	m := MatSpec{1, 0, 0, 0, 1, 0}
	n := rapid.IntRange(1, 4).Draw(t, "nmat")
	for i := 0; i < n; i++ {
		kinds := 6
		if similarityOnly {
			kinds = 3
		}
		var e MatSpec
		switch rapid.IntRange(0, kinds-1).Draw(t, "mkind") {
		case 0: // translate
			e = MatSpec{1, 0, float64(rapid.IntRange(-80, 80).Draw(t, "tx")) / 4, 0, 1, float64(rapid.IntRange(-80, 80).Draw(t, "ty")) / 4}
		case 1: // rotate
			var deg float64
			if rapid.Bool().Draw(t, "rot90") {
				deg = float64(rapid.IntRange(-4, 4).Draw(t, "r90")) * 90
			} else {
				deg = float64(rapid.IntRange(-1800, 1800).Draw(t, "rdeg")) / 10
			}
			s, c := math.Sincos(deg * math.Pi / 180)
			if math.Mod(deg, 90) == 0 {
				s, c = math.Round(s), math.Round(c)
			}
			e = MatSpec{c, -s, 0, s, c, 0}
		case 2: // uniform scale
			f := float64(rapid.IntRange(1, 40).Draw(t, "us")) / 8
			e = MatSpec{f, 0, 0, 0, f, 0}
		case 3: // anisotropic scale, possibly negative
			fx := float64(rapid.IntRange(1, 40).Draw(t, "sx")) / 8
			fy := float64(rapid.IntRange(1, 40).Draw(t, "sy")) / 8
			if rapid.IntRange(0, 3).Draw(t, "negx") == 0 {
				fx = -fx
			}
			if rapid.IntRange(0, 3).Draw(t, "negy") == 0 {
				fy = -fy
			}
			e = MatSpec{fx, 0, 0, 0, fy, 0}
		case 4: // shear
			e = MatSpec{1, float64(rapid.IntRange(-16, 16).Draw(t, "shx")) / 8, 0, 0, 1, 0}
			if rapid.Bool().Draw(t, "shy") {
				e = MatSpec{1, 0, 0, e[1], 1, 0}
			}
		default: // reflection
			if rapid.Bool().Draw(t, "refx") {
				e = MatSpec{-1, 0, 0, 0, 1, 0}
			} else {
				e = MatSpec{1, 0, 0, 0, -1, 0}
			}
		}
		m = mul(m, e)
	}
	return m
}

// Det of the linear part.
func (m MatSpec) Det() float64 { return m[0]*m[4] - m[1]*m[3] }

// IsSimilarity reports whether m is a rotation+uniform scale (+reflection).
func (m MatSpec) IsSimilarity() bool {
	a, b, c, d := m[0], m[1], m[3], m[4]
	s := math.Sqrt(math.Abs(m.Det()))
	return math.Abs(a*a+c*c-s*s) < 1e-9*s*s && math.Abs(b*b+d*d-s*s) < 1e-9*s*s && math.Abs(a*b+c*d) < 1e-9*s*s
}
