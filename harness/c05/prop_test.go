package c05

import (
	"fmt"
	"math"
	"testing"

	"github.com/tdewolff/canvas"
	"pgregory.net/rapid"

	"verif/harness/gen"
	"verif/harness/oracle"
	"verif/harness/rec"
	"verif/harness/vf"
)

func recNew() *rec.Renderer { return rec.New(100, 100) }

func TestMain(m *testing.M) { vf.Main(m, "C05") }

type Case struct {
	Path   gen.PathSpec `json:"path"`
	Offset float64      `json:"offset"`
	D      []float64    `json:"d"`
	Width  float64      `json:"width"` // stroke width for the Context sub-property
}

func genCase(t *rapid.T) Case {
	o := gen.DefaultOpts()
	o.Lo, o.Hi = -15, 15
	o.MaxSub = 3
	o.MaxSeg = 4
	if rapid.IntRange(0, 2).Draw(t, "flat") == 0 {
		o.Ops = "L"
	}
	c := Case{Path: gen.Path(t, o)}
	for i := range c.Path.Cmds {
		// keep most arcs moderately eccentric: strongly eccentric ones fall into finding class F09b
		if a := c.Path.Cmds[i].A; c.Path.Cmds[i].Op == "A" && rapid.IntRange(0, 9).Draw(t, "ecc") < 7 {
			a[1] = a[0] * float64(gen.Uniform(t, "ry/rx", 5, 10)) / 10
		}
	}
	n := rapid.IntRange(0, 6).Draw(t, "nd")
	for i := 0; i < n; i++ {
		v := float64(gen.Uniform(t, "d", 1, 64)) / 4
		if rapid.IntRange(0, 7).Draw(t, "zero") == 0 {
			v = 0
		}
		c.D = append(c.D, v)
	}
	if n >= 2 && rapid.IntRange(0, 5).Draw(t, "rep") == 0 {
		c.D = append(c.D, c.D...) // repeated sub-pattern
	}
	c.Offset = float64(gen.Uniform(t, "off", -200, 200)) / 4
	if rapid.IntRange(0, 3).Draw(t, "off0") == 0 {
		c.Offset = 0
	}
	c.Width = []float64{1, 1, 0.25, 0.5, 2, 5}[rapid.IntRange(0, 5).Draw(t, "w")]
	return c
}

// ---- reference dasher ----

// drawn returns the drawn intervals on [0,L] of the cyclic pattern d (odd lengths doubled) shifted by offset.
// solid: everything drawn; intervals are merged when they touch.
func drawn(L, offset float64, d []float64) (iv [][2]float64, solid bool) {
	if len(d) == 0 {
		return [][2]float64{{0, L}}, true
	}
	if len(d)%2 == 1 {
		d = append(append([]float64(nil), d...), d...)
	}
	P, on := 0.0, 0.0
	for i, v := range d {
		P += v
		if i%2 == 0 {
			on += v
		}
	}
	if on == 0 {
		return nil, false
	}
	if on == P {
		return [][2]float64{{0, L}}, true
	}
	// pattern position of path position s is s + offset; first cycle start at or before -offset
	k0 := math.Floor(offset / P)
	base := k0*P - offset // path position of a cycle start, <= 0
	for base+P <= 0 {
		base += P
	}
	for c0 := base; c0 < L; c0 += P {
		pos := c0
		for i, v := range d {
			if i%2 == 0 && v > 0 {
				a, b := math.Max(pos, 0), math.Min(pos+v, L)
				if b > a {
					if n := len(iv); n > 0 && a-iv[n-1][1] <= 1e-12*(1+L) {
						iv[n-1][1] = b
					} else {
						iv = append(iv, [2]float64{a, b})
					}
				}
			}
			pos += v
		}
	}
	return iv, false
}

// boundaryNear reports whether a boundary of the (infinitely repeated) pattern lies within tol of path position L,
// before or after it: the library, measuring the subpath a little longer or shorter, may then draw one piece more or less.
func boundaryNear(L, tol, offset float64, d []float64) bool {
	if len(d)%2 == 1 {
		d = append(append([]float64(nil), d...), d...)
	}
	P := 0.0
	for _, v := range d {
		P += v
	}
	if !(P > 0) {
		return false
	}
	base := math.Floor(offset/P)*P - offset
	for base+P <= 0 {
		base += P
	}
	for c0 := base; c0 < L+tol; c0 += P {
		pos := c0
		for _, v := range d {
			if math.Abs(pos-L) < tol {
				return true
			}
			pos += v
		}
		if math.Abs(pos-L) < tol {
			return true
		}
	}
	return false
}

type subpath struct {
	segs   []oracle.Seg
	closed bool
	cum    []float64 // cumulative true length at the end of each segment
	dense  []oracle.Pt
	dcum   []float64
	L      float64
	size   float64
	maxCurved float64
	curved    float64 // total true length of the curved segments
}

const nDense = 1500

func prepSub(segs []oracle.Seg) *subpath {
	sp := &subpath{segs: segs}
	b := oracle.EmptyBox()
	for _, s := range segs {
		if s.Cmd == oracle.Close {
			sp.closed = true
		}
		if s.Cmd == oracle.MoveTo {
			sp.dense = append(sp.dense, s.End())
			sp.dcum = append(sp.dcum, 0)
			sp.cum = append(sp.cum, 0)
			continue
		}
		n := 1
		if s.Curved() {
			n = nDense
		}
		start := sp.L
		for i := 1; i <= n; i++ {
			q := s.Eval(float64(i) / float64(n))
			sp.L += q.Dist(sp.dense[len(sp.dense)-1])
			sp.dense = append(sp.dense, q)
			sp.dcum = append(sp.dcum, sp.L)
		}
		sp.cum = append(sp.cum, sp.L)
		if s.Curved() {
			sp.maxCurved = math.Max(sp.maxCurved, sp.L-start)
			sp.curved += sp.L - start
		}
		sb := oracle.SegBounds(s, 16)
		b = b.Extend(oracle.Pt{X: sb.X0, Y: sb.Y0}).Extend(oracle.Pt{X: sb.X1, Y: sb.Y1})
	}
	sp.size = b.Size()
	return sp
}

// at returns the point at true arc length s.
func (sp *subpath) at(s float64) oracle.Pt {
	if s <= 0 {
		return sp.dense[0]
	}
	if s >= sp.L {
		return sp.dense[len(sp.dense)-1]
	}
	lo, hi := 0, len(sp.dcum)-1
	for hi-lo > 1 {
		m := (lo + hi) / 2
		if sp.dcum[m] <= s {
			lo = m
		} else {
			hi = m
		}
	}
	f := 0.0
	if sp.dcum[hi] > sp.dcum[lo] {
		f = (s - sp.dcum[lo]) / (sp.dcum[hi] - sp.dcum[lo])
	}
	return sp.dense[lo].Add(sp.dense[hi].Sub(sp.dense[lo]).Mul(f))
}

func splitSubs(segs []oracle.Seg) [][]oracle.Seg {
	var out [][]oracle.Seg
	for _, s := range segs {
		if s.Cmd == oracle.MoveTo || len(out) == 0 {
			out = append(out, nil)
		}
		out[len(out)-1] = append(out[len(out)-1], s)
	}
	return out
}

func pathOf(segs []oracle.Seg) *canvas.Path {
	p := &canvas.Path{}
	for _, s := range segs {
		a := s.Args
		switch s.Cmd {
		case oracle.MoveTo:
			p.MoveTo(a[0], a[1])
		case oracle.LineTo:
			p.LineTo(a[0], a[1])
		case oracle.QuadTo:
			p.QuadTo(a[0], a[1], a[2], a[3])
		case oracle.CubeTo:
			p.CubeTo(a[0], a[1], a[2], a[3], a[4], a[5])
		case oracle.ArcTo:
			l, sw := oracle.ArcFlags(a[3])
			p.ArcTo(a[0], a[1], a[2]*180/math.Pi, l, sw, a[4], a[5])
		case oracle.Close:
			p.Close()
		}
	}
	return p
}

func hardSegments(segs []oracle.Seg) (ecc, cusp bool) {
	for _, s := range segs {
		if s.Cmd == oracle.ArcTo {
			rx, ry := s.Args[0], s.Args[1]
			ratio := math.Min(rx, ry) / math.Max(rx, ry)
			if ratio < 0.5 && math.Abs(s.ArcOf().Dth) > math.Pi/2 || ratio < 0.15 {
				ecc = true // as in C09: long arcs of eccentric ellipses, needle ellipses at any sweep
			}
		}
		if s.Cmd == oracle.QuadTo || s.Cmd == oracle.CubeTo {
			mn, mx := math.Inf(1), 0.0
			prev := s.Eval(0)
			for i := 1; i <= 300; i++ {
				q := s.Eval(float64(i) / 300)
				v := q.Dist(prev)
				mn, mx = math.Min(mn, v), math.Max(mx, v)
				prev = q
			}
			if mn < 0.2*mx { // as in C09 (measured there)
				cusp = true
			}
		}
	}
	return
}

func allZero(d []float64) bool {
	for _, v := range d {
		if v != 0 {
			return false
		}
	}
	return true
}

func checkDash(c Case, r *vf.R) error {
	p := c.Path.Build()
	if p.Empty() {
		return nil
	}
	data := append([]float64(nil), p.Data()...)
	segs, err := oracle.Decode(data)
	if err != nil {
		return vf.Errorf("input not decodable: %v", err)
	}
	darg := append([]float64(nil), c.D...)
	var q, q2 *canvas.Path
	if err := vf.Try("Dash", func() { q = p.Dash(c.Offset, darg...) }); err != nil {
		return err
	}
	for i := range darg {
		if darg[i] != c.D[i] {
			return vf.Errorf("Dash modified the dash array passed in: %v -> %v", c.D, darg)
		}
	}
	if err := vf.Try("Dash (second call)", func() { q2 = p.Dash(c.Offset, darg...) }); err != nil {
		return err
	}
	if !q.Equals(q2) {
		return vf.Errorf("two identical Dash calls give different results: %v vs %v", q, q2)
	}
	for i, v := range p.Data() {
		if v != data[i] {
			return vf.Errorf("Dash modified its receiver at index %d", i)
		}
	}
	out, err := oracle.Decode(q.Data())
	if err != nil {
		return vf.Errorf("output not decodable: %v", err)
	}
	// degenerate patterns
	if len(c.D) == 0 {
		r.Class("empty-pattern")
		if !q.Equals(p) {
			return vf.Errorf("empty pattern: Dash returned %v, want the path %v", q, p)
		}
		return nil
	}
	if allZero(c.D) {
		r.Class("all-zero-pattern")
		if !q.Empty() {
			return vf.Errorf("all-zero pattern: Dash returned %v, want nothing", q)
		}
		return nil
	}
	subs := splitSubs(segs)
	// every subpath is dashed independently: the result of the whole path is the concatenation of the results per subpath
	var pieces [][]oracle.Seg // per input subpath: concatenated output segments
	if len(subs) > 1 {
		var concat []float64
		for _, ss := range subs {
			var qs *canvas.Path
			single := pathOf(ss)
			if err := vf.Try("Dash (single subpath)", func() { qs = single.Dash(c.Offset, darg...) }); err != nil {
				return err
			}
			concat = append(concat, qs.Data()...)
			os, err := oracle.Decode(qs.Data())
			if err != nil {
				return vf.Errorf("output not decodable: %v", err)
			}
			pieces = append(pieces, os)
		}
		whole := q.Data()
		if len(whole) != len(concat) {
			return vf.Errorf("subpaths are not dashed independently: whole path gives %v, per subpath %v", q, canvas.NewPathFromData(concat))
		}
		for i := range whole {
			if math.Abs(whole[i]-concat[i]) > 1e-9*(1+math.Abs(whole[i])) {
				return vf.Errorf("subpaths are not dashed independently: whole path gives %v, per subpath %v", q, canvas.NewPathFromData(concat))
			}
		}
	} else {
		pieces = [][]oracle.Seg{out}
	}
	for k, ss := range subs {
		ecc, cusp := hardSegments(ss)
		sp := prepSub(ss)
		if sp.L <= 1e-4 {
			continue
		}
		iv, solid := drawn(sp.L, c.Offset, c.D)
		got := splitSubs(pieces[k])
		if len(pieces[k]) == 0 {
			got = nil
		}
		tolOn := 1e-6 * sp.size
		// every piece lies on the input subpath
		for gi, g := range got {
			for _, s := range g {
				if s.Cmd == oracle.MoveTo {
					continue
				}
				for m := 0; m <= 12; m++ {
					if d := oracle.PathDist(sp.segs, s.Eval(float64(m)/12), 256); d > tolOn {
						return vf.Errorf("subpath %d: piece %d leaves the path by %g", k, gi, d)
					}
				}
			}
		}
		if solid {
			// everything drawn: same geometry as the input subpath
			gl := 0.0
			for _, g := range got {
				for _, s := range g {
					gl += oracle.SegLength(s, 600)
				}
			}
			if math.Abs(gl-sp.L) > 1e-5*sp.L {
				return vf.Errorf("subpath %d: pattern without gaps must draw the whole subpath (length %v), drew %v", k, sp.L, gl)
			}
			continue
		}
		// the library measures with its own approximate lengths: cases where an interval boundary falls
		// within 2 % of the subpath's end are ambiguous and only get the checks above
		// positions are measured by the library in its own arc length, one percent or so off per curved segment:
		// the errors of the curved segments before a position add up
		tolLen := 0.015*sp.curved + 1e-7*sp.size
		amb := boundaryNear(sp.L, 0.02*sp.curved+1e-6*sp.size, c.Offset, c.D)
		for _, x := range iv {
			for _, v := range x {
				if v > 0 && v < sp.L && (sp.L-v < 0.02*sp.curved+1e-6*sp.size || v < 1e-6*sp.size) {
					amb = true
				}
			}
			if x[1]-x[0] < 1e-6*sp.size {
				amb = true
			}
		}
		if r.ClassIf(amb, "boundary-near-subpath-end(weak checks only)") {
			continue
		}
		if (ecc && r.Excluded("F09b", true)) || (cusp && r.Excluded("F09c", true)) {
			// arc-length inversion on eccentric arcs / cusps is a few percent off (see C09): weak checks only
			continue
		}
		// closed subpath starting and ending inside a dash: joined into one piece that comes first
		exp := iv
		joined := false
		if sp.closed && len(iv) >= 2 && iv[0][0] == 0 && iv[len(iv)-1][1] == sp.L {
			joined = true
			exp = append([][2]float64{{iv[len(iv)-1][0], iv[0][1]}}, iv[1:len(iv)-1]...)
		}
		r.ClassIf(joined, "closed-joined")
		curvedCut := false
		if len(exp) >= 2 {
			for _, x := range exp {
				for _, v := range x {
					acc := 0.0
					for i, s := range sp.segs {
						if s.Curved() && v > acc+1e-6 && v < sp.cum[i]-1e-6 {
							curvedCut = true
						}
						acc = sp.cum[i]
					}
				}
			}
			if curvedCut {
				r.NonTrivial()
			} else {
				r.Class("cuts-on-lines-only")
				if len(subs) > 1 || joined {
					r.NonTrivial()
				}
			}
		}
		if len(got) != len(exp) {
			return vf.Errorf("subpath %d (length %.6g, closed=%v): %d pieces, pattern prescribes %d (intervals %v): %v", k, sp.L, sp.closed, len(got), len(exp), exp, q)
		}
		for i, x := range exp {
			g := got[i]
			st, en := g[0].End(), g[len(g)-1].End()
			gl := 0.0
			for _, s := range g {
				gl += oracle.SegLength(s, 600)
			}
			wantLen := x[1] - x[0]
			if i == 0 && joined {
				wantLen = sp.L - x[0] + x[1]
			}
			vf.Max("dash piece length error / max curved segment", math.Abs(gl-wantLen)/math.Max(sp.maxCurved, 1e-9), fmt.Sprintf("%s off=%g d=%v", c.Path, c.Offset, c.D))
			if math.Abs(gl-wantLen) > 2*tolLen {
				return vf.Errorf("subpath %d piece %d: true length %v, pattern prescribes %v (interval %v, tolerance %g)", k, i, gl, wantLen, x, 2*tolLen)
			}
			if d := st.Dist(sp.at(x[0])); d > tolLen+1e-6*sp.size {
				return vf.Errorf("subpath %d piece %d starts at %v, the point at arc length %v is %v (off by %g, tolerance %g)", k, i, st, x[0], sp.at(x[0]), d, tolLen)
			}
			if d := en.Dist(sp.at(x[1])); d > tolLen+1e-6*sp.size {
				return vf.Errorf("subpath %d piece %d ends at %v, the point at arc length %v is %v (off by %g, tolerance %g)", k, i, en, x[1], sp.at(x[1]), d, tolLen)
			}
		}
	}
	return nil
}

func TestDash(t *testing.T) {
	vf.Run(t, vf.Prop[Case]{Sub: "dash", Gen: genCase, Check: checkDash, Cases: vf.N(1500, 25000)})
}

// ---- Context.SetDashes / DrawPath: what the back-ends are asked to dash draws the requested stretches ----

func sameIntervals(a, b [][2]float64, tol float64) bool {
	if len(a) != len(b) {
		return false
	}
	for i := range a {
		if math.Abs(a[i][0]-b[i][0]) > tol || math.Abs(a[i][1]-b[i][1]) > tol {
			return false
		}
	}
	return true
}

func checkContext(c Case, r *vf.R) error {
	p := c.Path.Build()
	if p.Empty() {
		return nil
	}
	segs, err := oracle.Decode(p.Data())
	if err != nil {
		return vf.Errorf("input not decodable: %v", err)
	}
	rr := recNew()
	ctx := canvas.NewContext(rr)
	ctx.SetFillColor(canvas.Transparent)
	ctx.SetStrokeColor(canvas.Black)
	ctx.SetStrokeWidth(c.Width)
	darg := append([]float64(nil), c.D...)
	ctx.SetDashes(c.Offset, darg...)
	if err := vf.Try("DrawPath", func() { ctx.DrawPath(0, 0, p); ctx.DrawPath(0, 0, p) }); err != nil {
		return err
	}
	for i := range darg {
		if darg[i] != c.D[i] {
			return vf.Errorf("DrawPath modified the dash array given to SetDashes: %v -> %v", c.D, darg)
		}
	}
	if len(rr.Calls) != 2 {
		return vf.Errorf("two DrawPath calls produced %d renderer calls", len(rr.Calls))
	}
	ecc, cusp := hardSegments(segs)
	if len(c.D) >= 2 && c.Width != 1 {
		r.NonTrivial()
	}
	for ci, call := range rr.Calls {
		// back-ends scale dash lengths and offset by the stroke width (canvas.ScaleDash)
		w := c.Width
		for k, ss := range splitSubs(segs) {
			sp := prepSub(ss)
			if sp.L <= 1e-4 {
				continue
			}
			want, wsolid := drawn(sp.L, c.Offset*w, scale(c.D, w))
			var got [][2]float64
			gsolid := false
			switch {
			case !call.Style.HasStroke():
				got = nil
			default:
				got, gsolid = drawn(sp.L, call.Style.DashOffset*w, scale(call.Dashes, w))
			}
			_ = wsolid
			_ = gsolid
			// the decision whether dashes are needed is taken with the library's approximate length of the
			// whole path: boundaries within 3 % of a subpath end are ambiguous
			amb := false
			for _, x := range append(append([][2]float64{}, want...), got...) {
				for _, v := range x {
					if v > 0 && v < sp.L && sp.L-v < 0.03*sp.L+1e-6 {
						amb = true
					}
				}
			}
			if amb || ecc || cusp {
				r.Class("ambiguous-or-hard(skipped)")
				continue
			}
			if !sameIntervals(want, got, 1e-6*(1+sp.L)) {
				return vf.Errorf("draw %d, subpath %d (length %.6g), stroke width %g: SetDashes(%g, %v) prescribes the stretches %v; the renderer is given stroke=%v offset=%g dashes=%v which draws %v", ci, k, sp.L, w, c.Offset, c.D, trunc(want), call.Style.HasStroke(), call.Style.DashOffset, call.Dashes, trunc(got))
			}
		}
	}
	return nil
}

func trunc(iv [][2]float64) [][2]float64 {
	if len(iv) > 6 {
		return iv[:6]
	}
	return iv
}

func scale(d []float64, w float64) []float64 {
	out := make([]float64, len(d))
	for i := range d {
		out[i] = d[i] * w
	}
	return out
}

func TestContextDash(t *testing.T) {
	vf.Run(t, vf.Prop[Case]{Sub: "context", Gen: genCase, Check: checkContext, Cases: vf.N(2500, 40000)})
}
