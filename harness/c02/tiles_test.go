package c02

import (
	"testing"

	"pgregory.net/rapid"
	"verif/harness/gen"
	"verif/harness/vf"
)

// ---------------- axis-aligned rectangles on a small integer grid ----------------
//
// Two to five rectangles with integer corners on a 7x7 grid, either orientation: abutting tiles (seams of even
// multiplicity), rectangles nested in one of two abutting tiles, rectangles drawn twice, shared corners and partially
// overlapping collinear edges are all frequent here and rare under the general generator. Same oracle as settle.

func genTiles(t *rapid.T) Case {
	c := Case{Rule: rapid.IntRange(0, 3).Draw(t, "rule")}
	n := rapid.IntRange(2, 5).Draw(t, "nrect")
	for i := 0; i < n; i++ {
		x0 := gen.Uniform(t, "x0", 0, 5)
		y0 := gen.Uniform(t, "y0", 0, 5)
		x1 := gen.Uniform(t, "x1", x0+1, 6)
		y1 := gen.Uniform(t, "y1", y0+1, 6)
		pts := [][2]float64{{float64(x0), float64(y0)}, {float64(x1), float64(y0)}, {float64(x1), float64(y1)}, {float64(x0), float64(y1)}}
		if rapid.Bool().Draw(t, "cw") {
			pts[1], pts[3] = pts[3], pts[1]
		}
		if k := rapid.IntRange(0, 3).Draw(t, "startAt"); k > 0 {
			pts = append(pts[k:], pts[:k]...)
		}
		for k, p := range pts {
			op := "L"
			if k == 0 {
				op = "M"
			}
			c.P.Cmds = append(c.P.Cmds, gen.Cmd{Op: op, A: []float64{p[0], p[1]}})
		}
		c.P.Cmds = append(c.P.Cmds, gen.Cmd{Op: "z"})
	}
	for i := 0; i < 30; i++ {
		c.Pts = append(c.Pts, [2]float64{gen.SmoothCoord(t, "sx", -1, 7), gen.SmoothCoord(t, "sy", -1, 7)})
	}
	return c
}

func TestTiles(t *testing.T) {
	vf.Run(t, vf.Prop[Case]{Sub: "tiles", Gen: genTiles, Check: checkSettle, Cases: vf.N(8000, 100000),
		MaxRate: map[string]float64{"F02a": 0.01, "F02c": 0.0002}})
}
