package c02

import (
	"math"
	"sort"
	"testing"
	"time"

	"github.com/tdewolff/canvas"
	"pgregory.net/rapid"

	"verif/harness/bgen"
	"verif/harness/gen"
	"verif/harness/geo"
	"verif/harness/oracle"
	"verif/harness/vf"
)

func TestMain(m *testing.M) { vf.Main(m, "C02") }

type Case struct {
	P      gen.PathSpec `json:"p"`
	Rule   int          `json:"rule"`
	Curved bool         `json:"curved"`
	Open   bool         `json:"open"` // drop the Close of the last contour (weak invariants only)
	Pts    [][2]float64 `json:"points"`
}

var rules = []canvas.FillRule{canvas.NonZero, canvas.EvenOdd, canvas.Positive, canvas.Negative}

func fills(rule canvas.FillRule, w int) bool {
	switch rule {
	case canvas.NonZero:
		return w != 0
	case canvas.EvenOdd:
		return w%2 != 0
	case canvas.Positive:
		return w > 0
	default:
		return w < 0
	}
}

func genCase(t *rapid.T) Case {
	curved := rapid.IntRange(0, 3).Draw(t, "curved") == 0
	smooth := rapid.IntRange(0, 5).Draw(t, "smooth") == 0
	c := Case{P: bgen.Operand(t, curved, smooth), Curved: curved, Rule: rapid.IntRange(0, 3).Draw(t, "rule")}
	c.Open = rapid.IntRange(0, 6).Draw(t, "open") == 0
	for i := 0; i < 30; i++ {
		c.Pts = append(c.Pts, [2]float64{gen.SmoothCoord(t, "sx", -1, 11), gen.SmoothCoord(t, "sy", -1, 11)})
	}
	return c
}

func samplePoints(c Case, segs []oracle.Seg) []oracle.Pt {
	var pts []oracle.Pt
	for _, q := range c.Pts {
		pts = append(pts, oracle.Pt{X: q[0], Y: q[1]})
	}
	for _, s := range segs {
		if s.Cmd == oracle.MoveTo {
			continue
		}
		v := s.End()
		for _, d := range [][2]float64{{0.013, 0.007}, {-0.011, 0.009}, {0.006, -0.012}, {-0.008, -0.01}} {
			pts = append(pts, oracle.Pt{X: v.X + d[0], Y: v.Y + d[1]})
		}
		a, b := s.Eval(0.5), s.Eval(0.5001)
		n := oracle.Pt{X: -(b.Y - a.Y), Y: b.X - a.X}
		if l := n.Len(); l > 0 {
			n = n.Mul(0.011 / l)
			pts = append(pts, a.Add(n), a.Sub(n))
		}
	}
	if len(pts) > 200 {
		pts = pts[:200]
	}
	return pts
}

func degenerate(ps gen.PathSpec) (spike bool, mult int) {
	count := map[string]int{}
	var cur []float64
	flat := true
	for _, c := range ps.Cmds {
		switch c.Op {
		case "M":
			cur = append([]float64(nil), c.A...)
			flat = true
		case "z":
			if flat && len(cur) <= 4 {
				spike = true
			}
			type pt struct{ x, y float64 }
			var pts []pt
			for i := 0; i+1 < len(cur); i += 2 {
				pts = append(pts, pt{cur[i], cur[i+1]})
			}
			sort.Slice(pts, func(i, j int) bool { return pts[i].x < pts[j].x || pts[i].x == pts[j].x && pts[i].y < pts[j].y })
			k := ""
			for _, p := range pts {
				k += string(rune(int(p.x*8))) + "," + string(rune(int(p.y*8))) + ";"
			}
			count[k+string(rune(len(pts)))]++
			cur = nil
		default:
			if c.Op != "L" {
				flat = false
			}
			cur = append(cur, c.A...)
		}
	}
	for _, v := range count {
		if v > mult {
			mult = v
		}
	}
	return
}

// nearTouch reports whether a vertex of the path lies within 3e-8 (the sweep snaps to a grid of 1e-8) of an edge or
// vertex that it is not part of, without lying exactly on it.
func nearTouch(ps gen.PathSpec) bool {
	// the sweep works on the library's own flattening of curved segments: its vertices count too
	segs, err := oracle.Decode(ps.Build().Flatten(canvas.Tolerance).Data())
	if err != nil {
		return false
	}
	var vs []oracle.Pt
	for _, s := range segs {
		vs = append(vs, s.End())
	}
	if len(vs) > 3000 {
		return false
	}
	for _, pl := range oracle.Sample(segs, 1) {
		n := len(pl.P)
		for i := 0; i < n; i++ {
			a, b := pl.P[i], pl.P[(i+1)%n]
			if a == b || (!pl.Closed && i == n-1) {
				continue
			}
			for _, v := range vs {
				if v == a || v == b {
					continue
				}
				if d := oracle.DistSeg(v, a, b); d > 0 && d < 3e-8 {
					return true
				}
			}
		}
	}
	return false
}

func checkSettle(c Case, r *vf.R) error {
	err := checkSettle1(c, r)
	if err != nil {
		// F02b: an open subpath among closed ones: Settle panics ("next node for result polygon is nil") in ~2% of such inputs
		if r.Excluded("F02b", c.Open) {
			return nil
		}
		// curved inputs are flattened first: the open findings of Flatten (C03) apply to their segments
		if segs, derr := oracle.Decode(c.P.Build().Data()); derr == nil {
			for _, sg := range segs {
				if _, f := geo.FlattenBound(sg, canvas.Tolerance); f != "" && r.Excluded(f, true) {
					return nil
				}
			}
		}
		// F02c: a vertex within the snap distance of an edge it does not lie on
		if r.Excluded("F02c", nearTouch(c.P)) {
			return nil
		}
		sp, mult := degenerate(c.P)
		// F02a: zero-area spikes or coincident contours: Settle panics or returns a wrong region in ~0.5% of such inputs
		if r.Excluded("F02a", sp || mult >= 2) {
			return nil
		}
	}
	return err
}

func checkSettle1(c Case, r *vf.R) error {
	spec := c.P
	if c.Open && len(spec.Cmds) > 0 && spec.Cmds[len(spec.Cmds)-1].Op == "z" {
		spec = gen.PathSpec{Cmds: spec.Cmds[:len(spec.Cmds)-1]}
	}
	p := spec.Build()
	if p.Empty() {
		return nil
	}
	data := append([]float64(nil), p.Data()...)
	segs, err := oracle.Decode(data)
	if err != nil {
		return vf.Errorf("input not decodable: %v", err)
	}
	rule := rules[c.Rule]
	var q, qq *canvas.Path
	if perr := guard("Settle", func() { q = p.Settle(rule) }); perr != nil {
		return vf.Errorf("%v.Settle(%v): %v", p, rule, perr)
	}
	for i, v := range p.Data() {
		if v != data[i] {
			return vf.Errorf("Settle modified its receiver at index %d", i)
		}
	}
	out, err := oracle.Decode(q.Data())
	if err != nil {
		return vf.Errorf("output not decodable: %v", err)
	}
	for _, s := range out {
		if s.Curved() {
			return vf.Errorf("Settle output contains curves")
		}
	}
	r.ClassIf(c.Open, "open-last-subpath(weak invariants)")
	if c.Open {
		// open subject subpaths are treated as polylines by the library (README): region semantics undefined
		return nil
	}
	in := oracle.Sample(segs, 96)
	outp := oracle.Sample(out, 1)
	if oracle.SelfIntersects(in, 1e-9) {
		r.NonTrivial()
	}
	// guard band: the snap grid for flat inputs; for curved ones the distance by which the flattening Settle works
	// on may deviate from the curve (the bounds property C03 enforces for Flatten, per segment)
	delta := 1e-6
	for _, sg := range segs {
		if b, _ := geo.FlattenBound(sg, canvas.Tolerance); b+1e-6 > delta {
			delta = b + 1e-6
		}
	}
	pts := samplePoints(c, segs)
	for _, pt := range pts {
		w, d := oracle.Winding(in, pt)
		if d < delta {
			continue
		}
		wo, _ := oracle.Winding(outp, pt)
		if want := fills(rule, w); (wo != 0) != want {
			return vf.Errorf("%v.Settle(%v) = %v: point %v has input winding %d (filled=%v) but output winding %d", p, rule, q, pt, w, want, wo)
		}
		// canonical: winding number 0 or 1 => same region under NonZero, EvenOdd and Positive
		if wo != 0 && wo != 1 {
			return vf.Errorf("%v.Settle(%v) = %v: point %v has winding number %d in the output (canonical form requires 0 or 1)", p, rule, q, pt, wo)
		}
	}
	// contours neither cross themselves nor each other (shared end points and touching vertices are allowed)
	edges := oracle.Edges(outp, true)
	if len(edges) <= 400 {
		for i := 0; i < len(edges); i++ {
			for j := i + 1; j < len(edges); j++ {
				if oracle.SegsIntersectProper(edges[i][0], edges[i][1], edges[j][0], edges[j][1], 4e-8) {
					return vf.Errorf("%v.Settle(%v) = %v: output edges %v and %v cross", p, rule, q, edges[i], edges[j])
				}
			}
		}
	}
	// idempotence: settling the settled path keeps region and vertex set (within the snap grid)
	if perr := guard("Settle(Settle)", func() { qq = q.Settle(canvas.NonZero) }); perr != nil {
		return vf.Errorf("Settle of the settled path %v: %v", q, perr)
	}
	out2, err := oracle.Decode(qq.Data())
	if err != nil {
		return vf.Errorf("second output not decodable: %v", err)
	}
	outp2 := oracle.Sample(out2, 1)
	for _, pt := range pts {
		_, d := oracle.Winding(in, pt)
		if d < delta {
			continue
		}
		w1, _ := oracle.Winding(outp, pt)
		w2, _ := oracle.Winding(outp2, pt)
		if w1 != w2 {
			return vf.Errorf("settling the settled path %v changes the winding at %v from %d to %d (%v)", q, pt, w1, w2, qq)
		}
	}
	a1, a2 := oracle.Area(outp), oracle.Area(outp2)
	if math.Abs(a1-a2) > 1e-6*(1+math.Abs(a1)) {
		return vf.Errorf("settling the settled path changes its area from %v to %v (%v -> %v)", a1, a2, q, qq)
	}
	vs := func(pl []oracle.Poly) []oracle.Pt {
		var v []oracle.Pt
		for _, x := range pl {
			v = append(v, x.P...)
		}
		return v
	}
	v1, v2 := vs(outp), vs(outp2)
	if len(v1)*len(v2) > 4000000 {
		// quadratic comparison: a finely flattened large curve would take hours
		r.Class("large-output(vertex comparison skipped)")
		return nil
	}
	for _, a := range v2 {
		// every vertex of the re-settled path lies on the settled path's boundary
		if d := oracle.Dist(outp, a); d > 4e-8 {
			return vf.Errorf("settling the settled path moves vertex %v by %g (> snap grid) (%v -> %v)", a, d, q, qq)
		}
	}
	_ = v1
	return nil
}

func TestSettle(t *testing.T) {
	vf.Run(t, vf.Prop[Case]{Sub: "settle", Gen: genCase, Check: checkSettle, Cases: vf.N(20000, 150000),
		MaxRate: map[string]float64{"F02a": 0.0015, "F02b": 0.06, "F02c": 0.0002},
		// measured at six seeds of the quick tier (480000 cases): 77, 9508 and 6 fall-backs
		BaseRate: map[string]float64{"F02a": 0.00016, "F02b": 0.0198, "F02c": 0.0000125}})
}

// guard runs a library call: a panic becomes an error (vf.Try) and so does a call that does not return within a minute
// (the call is left running in its goroutine; whether that is a violation or falls into a recorded finding class is
// decided from the input like for any other failure).
func guard(name string, f func()) error {
	var herr error
	if perr := vf.Try(name, func() { herr = vf.WatchdogErr(60*time.Second, f) }); perr != nil {
		return perr
	}
	if herr != nil {
		return vf.Errorf("%s: %w", name, herr)
	}
	return nil
}
