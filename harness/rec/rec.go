// Package rec provides a recording canvas.Renderer used as observation point for Context/Canvas properties.
package rec

import (
	"image"

	"github.com/tdewolff/canvas"
)

// Call is one call received by the renderer.
type Call struct {
	Kind  string // "path", "text", "image"
	Path  *canvas.Path
	Data  []float64 // copy of the path data at call time
	Style canvas.Style
	Dashes []float64 // copy of Style.Dashes at call time
	M     canvas.Matrix
	Text  *canvas.Text
	Img   image.Image
}

// Renderer records calls.
type Renderer struct {
	W, H  float64
	Calls []Call
}

func New(w, h float64) *Renderer { return &Renderer{W: w, H: h} }

func (r *Renderer) Size() (float64, float64) { return r.W, r.H }

func (r *Renderer) RenderPath(path *canvas.Path, style canvas.Style, m canvas.Matrix) {
	r.Calls = append(r.Calls, Call{Kind: "path", Path: path, Data: append([]float64(nil), path.Data()...), Style: style, Dashes: append([]float64(nil), style.Dashes...), M: m})
}

func (r *Renderer) RenderText(text *canvas.Text, m canvas.Matrix) {
	r.Calls = append(r.Calls, Call{Kind: "text", Text: text, M: m})
}

func (r *Renderer) RenderImage(img image.Image, m canvas.Matrix) {
	r.Calls = append(r.Calls, Call{Kind: "image", Img: img, M: m})
}
