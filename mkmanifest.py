#!/usr/bin/env python3
"""Regenerates MANIFEST.json from the table below (keeps it valid at all times)."""
import json, os
here = os.path.dirname(os.path.abspath(__file__))
rules = json.load(open(os.path.join(here, "rules.json")))
ALL = ["C%02d" % i for i in range(1, 21)]
claimed = [p for p in ALL if p in rules and rules[p].get("claimed", True)]
checks = []
for p in claimed:
    r = rules[p]
    checks.append({
        "property_id": p,
        "quick_cmd": "./check %s --tier quick" % p,
        "thorough_cmd": "./check %s --tier thorough" % p,
        "evidence_file": "evidence/%s.json" % p,
        "replay_cmd_template": "./check %s --replay {path}" % p,
        "engine": "rapid-harness",
        "level_claimed": {
            "category": "exploration",
            "text": r.get("level_text", "Generated-input search (pgregory.net/rapid) against an independent oracle; a green run means no counterexample among the generated cases, not absence."),
            "design_ref": r.get("design_ref", "DESIGN.md section 2, " + p),
        },
        "level_note": r.get("level_note", "; ".join(r.get("assumptions", [])) or "independent oracle in harness/oracle is the trusted base"),
        "technique": r.get("technique", "property-based testing (rapid) against an independent oracle"),
    })
na = [{"property_id": p, "reason": rules.get(p, {}).get("na_reason", "check not built yet in this session (work in progress); no claim is made")} for p in ALL if p not in claimed]
m = {
    "version": 1,
    "setup_cmd": "./setup.sh",
    "hooks": {
        "guard": "verif",
        "enable": "go test -tags verif (passed by ./check to every harness build; no hook files exist in /repo)",
        "baseline_off_cmd": "cd /repo && for m in . ./tests/latex ./tests/svg; do (cd $m && GOFLAGS=-mod=mod go test -json -vet=off -count=1 -timeout 25m ./...); done",
        "source_commits": [],
        "add_only": True,
    },
    "engines": [{"name": "rapid-harness", "path": "harness", "serves_properties": claimed,
                 "kind_free_text": "Go property-based tests (pgregory.net/rapid v1.3.0) + native go fuzz targets, independent oracles in harness/oracle, driver ./check"}],
    "checks": checks,
    "notes": "All checks rebuild the harness against /repo's working tree (replace directive). Exit 2 = inconclusive (never a violation). Known findings: known_findings.json.",
    "not_applicable": na,
}
json.dump(m, open(os.path.join(here, "MANIFEST.json"), "w"), indent=1)
print("claimed:", claimed)
