#!/usr/bin/env python3
import os, subprocess, sys, importlib.util, importlib.machinery
here = os.path.dirname(os.path.abspath(__file__))
loader = importlib.machinery.SourceFileLoader("check", os.path.join(here, "check"))
spec = importlib.util.spec_from_loader("check", loader)
chk = importlib.util.module_from_spec(spec)
loader.exec_module(chk)
env = chk.go_env()
h = os.path.join(here, "harness")
r = subprocess.run(["go", "version"], cwd=h, env=env)
# oracle self tests + independence test
r = subprocess.run(["go", "test", "-count=1", "./oracle/...", "./vf/..."], cwd=h, env=env)
if r.returncode != 0:
    sys.exit(1)
# warm the build cache
r = subprocess.run(["go", "vet", "-tags", "verif", "./..."], cwd=h, env=env, stdout=subprocess.DEVNULL, stderr=subprocess.DEVNULL)
r = subprocess.run(["go", "test", "-tags", "verif", "-vet=off", "-count=1", "-run", "^$", "./..."], cwd=h, env=env)
sys.exit(r.returncode)
