#!/bin/bash
# seedtool.sh verify <seeddir> <demo-target-dir-relative> <run-pattern> [pkg]
#     confirms in a scratch worktree of /repo HEAD: patch applies, demo fails with / passes without, suite unchanged
# seedtool.sh detect <seeddir> <PROPID> [tier]
#     applies the patch to a scratch worktree and runs ./check against it (VERIF_REPO)
# seedtool.sh keep <seeddir> <name>     copies into /verif/seeded/<name>/
export GOFLAGS=-mod=mod GOPROXY=off
cmd=$1; shift
case $cmd in
verify)
  sd=$1; rel=$2; pat=$3; pkg=${4:-.}
  wt=/tmp/seedverify-$$
  git -C /repo worktree add -q --detach $wt HEAD || exit 2
  trap "git -C /repo worktree remove --force $wt" EXIT
  cd $wt
  if ! git apply --check $sd/patch.diff 2>/dev/null; then echo "PATCH DOES NOT APPLY to /repo HEAD"; git apply --check $sd/patch.diff; exit 3; fi
  mkdir -p $rel; cp $sd/demo_test.go $rel/zz_seed_demo_test.go
  echo "--- demo WITHOUT change"; (cd $rel && go test -vet=off -count=1 -run "$pat" $pkg 2>&1 | tail -3)
  git apply $sd/patch.diff
  echo "--- demo WITH change"; (cd $rel && go test -vet=off -count=1 -run "$pat" $pkg 2>&1 | tail -4)
  rm -f $rel/zz_seed_demo_test.go
  echo "--- suite WITH change"; go test -vet=off -count=1 ./... 2>&1 | grep -v "no test files" | grep -E "^(--- FAIL|FAIL|ok|panic)" | grep -v "build failed" | head -20
  ;;
detect)
  # builds the check against a scratch worktree of /repo HEAD with the patch applied (VERIF_REPO): /repo is not touched
  sd=$1; id=$2; tier=${3:-quick}
  wt=/tmp/seeddetect-$$
  git -C /repo worktree add -q --detach $wt HEAD || exit 2
  trap "git -C /repo worktree remove --force $wt" EXIT
  (cd $wt && git apply $sd/patch.diff) || exit 3
  cd /verif; t0=$(date +%s)
  VERIF_REPO=$wt ./check $id --tier $tier 2>&1 | grep -E "VIOLATION|INCONCLUSIVE|^property=|^  \[" | head -8
  echo "exit=${PIPESTATUS[0]} wall=$(( $(date +%s) - t0 ))s"
  ;;
keep)
  sd=$1; name=$2
  mkdir -p /verif/seeded/$name
  cp $sd/patch.diff $sd/meta.json /verif/seeded/$name/
  cp $sd/demo_test.go /verif/seeded/$name/demo_test.go.txt
  ;;
esac
