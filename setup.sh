#!/bin/bash
# MANIFEST.setup_cmd: offline build of the harness (compiles every property package once so that the
# Go build cache is warm) and oracle self-tests.
set -e
cd "$(dirname "$0")"
exec python3 ./setup.py
