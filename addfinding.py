#!/usr/bin/env python3
"""usage: addfinding.py ID PROP SUB STATUS COMMIT 'what' case.json|- (case JSON from stdin or a replay file)"""
import json,sys
id_,prop,sub,status,commit,what,src=sys.argv[1:8]
raw=sys.stdin.read() if src=='-' else open(src).read()
c=json.loads(raw)
if 'case' in c and 'property' in c: c=c['case']
kf=json.load(open('/verif/known_findings.json'))
kf['findings']=[f for f in kf['findings'] if f['id']!=id_]
e={"id":id_,"property":prop,"sub":sub,"status":status}
if commit!='-': e["commit"]=commit
if status=='fixed': what="fixed: property=%s %s %s"%(prop,commit,what)
e["what"]=what; e["case"]=c
kf['findings'].append(e)
json.dump(kf,open('/verif/known_findings.json','w'),indent=1)
print("added",id_)
